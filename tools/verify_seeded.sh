#!/bin/bash
# usage: tools/verify_seeded.sh [ids...]   For every /verif/seeded/<id>: the patch applies to a scratch worktree of /repo's HEAD,
# the demo exits 1 with it and 0 without it. (Scratch worktree under $TMPDIR, removed afterwards; /repo's working tree is untouched.)
set -u
wt=$(mktemp -d)/wt
git -C /repo worktree add --detach "$wt" HEAD -q || exit 2
ids=("$@"); [ ${#ids[@]} -eq 0 ] && ids=($(ls /verif/seeded))
for id in "${ids[@]}"; do
  d=/verif/seeded/$id
  if ! git -C "$wt" apply --check "$d/patch.diff" 2>/dev/null; then echo "$id: PATCH DOES NOT APPLY"; continue; fi
  SEEDED_TREE=$wt PYTHONPATH=$wt/src /venv/bin/python "$d/demo.py" >/dev/null 2>&1; without=$?
  git -C "$wt" apply "$d/patch.diff"
  SEEDED_TREE=$wt PYTHONPATH=$wt/src /venv/bin/python "$d/demo.py" >/dev/null 2>&1; with=$?
  git -C "$wt" checkout -q -- . ; rm -rf "$wt/.mypy_cache"
  echo "$id: demo_without_patch=$without demo_with_patch=$with"
done
git -C /repo worktree remove --force "$wt"
