#!/bin/bash
# usage: tools/confirm_seed.sh <PROP> <worktree> <what-it-needs (text)>
# Confirms in the scratch worktree: demo fails with the change / passes without; baseline stable tests pass with the change.
set -u
P="$1"; WT="$2"; NEEDS="$3"; DIR="${4:-$1}"
patch="$WT/patch_$P.diff"; demo="$WT/demo_$P.py"
cd "$WT" || exit 2
git checkout -q -- src && git apply "$patch" || { echo "cannot apply"; exit 2; }
PYTHONPATH=$WT/src /venv/bin/python "$demo" > /tmp/confirm_${P}_with.log 2>&1; rc_with=$?
git apply -R "$patch"
PYTHONPATH=$WT/src /venv/bin/python "$demo" > /tmp/confirm_${P}_without.log 2>&1; rc_without=$?
git apply "$patch"
# baseline tests with the change
xml=$(mktemp --suffix=.xml)
PYTHONPATH=$WT/src /venv/bin/python -m pytest -q -p no:cacheprovider --timeout=900 --continue-on-collection-errors --junitxml=$xml tests > /dev/null 2>&1
missing=$(python3 - "$xml" <<'PY'
import json,sys
import xml.etree.ElementTree as ET
b=json.load(open("/root/.vp/BASELINE.json"))
passed=set()
for tc in ET.parse(sys.argv[1]).getroot().iter("testcase"):
    if not any(ch.tag in {"failure","error","skipped"} for ch in tc): passed.add(f"{tc.get('classname')}::{tc.get('name')}")
print(len([t for t in b["stable_pass"] if t not in passed]), len(passed))
PY
)
rm -f "$xml"; rm -rf "$WT/.mypy_cache"
echo "$P demo_with_change_rc=$rc_with demo_without_change_rc=$rc_without baseline_missing_and_total_passed=[$missing]"
mkdir -p /verif/seeded/$DIR
cp "$patch" /verif/seeded/$DIR/patch.diff; cp "$demo" /verif/seeded/$DIR/demo.py
python3 - "$P" "$rc_with" "$rc_without" "$missing" "$NEEDS" "$DIR" <<'PY'
import json,sys
P,rw,rwo,missing,needs,DIR=sys.argv[1:7]
m,total=missing.split()
json.dump({"property":P,"breaks":P,"needs_to_manifest":needs,
 "confirmed":{"demo_exit_with_change":int(rw),"demo_exit_without_change":int(rwo),"baseline_stable_tests_missing_with_change":int(m),"tests_passed_with_change":int(total),
  "how":"tools/confirm_seed.sh in the scratch worktree: demo run with and without the patch (PYTHONPATH=<worktree>/src), full pytest run with the patch compared with BASELINE.json stable_pass"},
 "source":"fresh sub-agent given only the property text and its own git worktree"}, open(f"/verif/seeded/{DIR}/meta.json","w"), indent=1)
PY
python3 /verif/tools/fix_demo_paths.py
