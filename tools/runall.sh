#!/bin/bash
# runs every registered quick check on the current tree, prints one line per check (use after every change to /repo)
cd /verif
for c in $(python3 -c "import json;print(' '.join(x['property_id'] for x in json.load(open('MANIFEST.json'))['checks']))"); do
  out=$(VERIF_SEED=${VERIF_SEED:-1} ./check $c --tier quick 2>&1); rc=$?
  echo "$c rc=$rc $(echo "$out" | grep -E '^\[C' | tail -1)"
  [ $rc -ne 0 ] && echo "$out" | grep -E "VIOLATION|kind=|HARNESS" | head -6
done
