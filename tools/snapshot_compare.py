#!/venv/bin/python
"""Plain comparer of the upstream .sdsstub snapshots with what the working tree generates (acceptance step for
every 'fix:' commit: a repair must not change an upstream snapshot). Run with cwd=/repo."""
import os, sys, tempfile
from pathlib import Path
os.chdir("/repo")
sys.path.insert(0, "/repo")
from safeds_stubgen.api_analyzer import TypeSourcePreference, TypeSourceWarning, get_api
from safeds_stubgen.docstring_parsing import DocstringStyle
from safeds_stubgen.stubs_generator import StubsStringGenerator, generate_stub_data

snap = Path("/repo/tests/safeds_stubgen/stubs_generator/__snapshots__/test_generate_stubs")
data = Path("/repo/tests/data")
out = Path(tempfile.mkdtemp())
ok = bad = 0
def cmp(name, text):
    global ok, bad
    f = snap / name
    if not f.exists():
        print("no snapshot", name); return
    if f.read_text() == text: ok += 1
    else:
        bad += 1; print("DIFF", name)
        import difflib
        for l in list(difflib.unified_diff(f.read_text().splitlines(), text.splitlines(), lineterm="", n=0))[:12]: print("   ", l)
api = get_api(data / "various_modules_package", is_test_run=True)
gen = StubsStringGenerator(api=api, convert_identifiers=True)
for d in generate_stub_data(stubs_generator=gen, out_path=out):
    cmp(f"TestStubFileGeneration.test_stub_creation[{d[1]}].sdsstub", d[2])
cases = [("full_docstring","PLAINTEXT","CODE","IGNORE","full_docstring-PLAINTEXT"),("googledoc","GOOGLE","CODE","IGNORE","googledoc-GOOGLE"),
 ("numpydoc","NUMPYDOC","CODE","IGNORE","numpydoc-NUMPYDOC"),("plaintext","PLAINTEXT","CODE","IGNORE","plaintext-PLAINTEXT"),("restdoc","REST","CODE","IGNORE","restdoc-REST"),
 ("docstring_vs_typehints","NUMPYDOC","CODE","IGNORE","docstring_vs_typehints-CODE"),("docstring_vs_typehints","NUMPYDOC","DOCSTRING","IGNORE","docstring_vs_typehints-DOCSTRING"),
 ("docstring_vs_typehints","NUMPYDOC","CODE","WARN","docstring_vs_typehints-THROW_WARNING")]
for fn, style, pref, warn, sid in cases:
    a = get_api(root=data / "docstring_parser_package", docstring_style=DocstringStyle[style], is_test_run=True,
                type_source_preference=TypeSourcePreference[pref], type_source_warning=TypeSourceWarning[warn])
    g = StubsStringGenerator(api=a, convert_identifiers=True)
    for d in generate_stub_data(stubs_generator=g, out_path=out):
        if d[1] == fn: cmp(f"test_stub_docstring_creation[{sid}].sdsstub", d[2])
print(f"snapshots: {ok} identical, {bad} different")
sys.exit(1 if bad else 0)
