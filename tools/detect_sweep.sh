#!/bin/bash
# usage: tools/detect_sweep.sh [ids...] > seeded/DETECTION.md
# For every stored seeded change: run the quick tier of its property's check against a scratch copy of /repo's committed
# tree with the patch applied (tools/seedtest.sh) and report whether the check raised a violation.
ids=("$@"); [ ${#ids[@]} -eq 0 ] && ids=($(ls /verif/seeded | grep -v '\.md$'))
echo "# Detection of the stored seeded changes by the quick tier of their property's check"
echo
echo "(\`tools/detect_sweep.sh\`, /repo at $(git -C /repo log --format=%h -1), /verif at $(git -C /verif log --format=%h -1))"
echo
echo "| seeded change | check | result | first discrepancy |"
echo "|---|---|---|---|"
for id in "${ids[@]}"; do
  c=${id%%_*}
  out=$(/verif/tools/seedtest.sh /verif/seeded/$id/patch.diff $c 2>&1)
  n=$(echo "$out" | grep -c "^VIOLATION")
  first=$(echo "$out" | grep "kind=" | head -1 | cut -c1-160 | tr '|' '/')
  if echo "$out" | grep -q "patch does not apply"; then res="patch does not apply"; elif [ "$n" -gt 0 ]; then res="caught ($n)"; else res="**missed**"; fi
  echo "| $id | $c | $res | $first |"
done
