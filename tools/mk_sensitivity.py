#!/usr/bin/env python3
"""usage: tools/mk_sensitivity.py <log of tools/mut.py all> > sensitivity.md"""
import json, re, sys
from pathlib import Path
V = Path(__file__).resolve().parent.parent
muts = json.loads((V / "tools" / "mutants.json").read_text())
rows = {}
for line in open(sys.argv[1]):
    m = re.match(r"(\S+)\s+(C\d\d): exit=(\d+) violations=(\d+) (\d+)s\s*(.*)", line)
    if m:
        rows.setdefault(m.group(1), []).append((m.group(2), int(m.group(3)), int(m.group(4)), int(m.group(5)), m.group(6).strip()))
    m = re.match(r"(\S+): pattern not found", line)
    if m:
        rows.setdefault(m.group(1), []).append(("-", -1, 0, 0, "pattern no longer present in the tree (code changed by a later repair)"))
print("# Sensitivity of the checks: deliberate breakages (tools/mut.py, tools/mutants.json)\n")
print("Each mutant is a one-place change of `/repo/src` applied to a scratch copy of the committed tree; the quick tier of the")
print("named check runs against it (PYTHONPATH override). `killed` = the check exited 1 with at least one VIOLATION line.\n")
killed = sum(1 for r in rows.values() if any(x[1] == 1 for x in r))
stale = sum(1 for r in rows.values() if all(x[1] == -1 for x in r))
print(f"**{killed} of {len(rows) - stale} applicable mutants killed** ({stale} no longer apply, {len(muts) - len(rows)} not run).\n")
print("| mutant | what it breaks | check | result | first discrepancy |\n|---|---|---|---|---|")
for mid, m in muts.items():
    for c, rc, nv, secs, det in rows.get(mid, [("-", None, 0, 0, "not run")]):
        res = {1: f"killed ({nv} violations, {secs}s)", 0: f"**survived** ({secs}s)", 2: "harness error", -1: "n/a", None: "not run"}[rc]
        print(f"| {mid} | {(m.get('note') or (m['file'].split('/')[-1] + ': `' + ' '.join(m['old'].split())[:60] + '` -> `' + ' '.join(m['new'].split())[:60] + '`')).replace('|', '/')} | {c} | {res} | {det[:160].replace('|', '/')} |")
