#!/usr/bin/env python3
"""Sensitivity runs: apply a deliberate breakage to a scratch copy of /repo/src and run checks against it.

usage: tools/mut.py <mutant id>|all [check ids...]      (mutants are listed in tools/mutants.json)
The scratch copy lives under $TMPDIR and is removed afterwards; /repo is never touched; evidence and replays of
mutant runs go to a scratch directory, not to /verif/evidence.
"""
import json, os, shutil, subprocess, sys, tempfile, time
from pathlib import Path
VERIF = Path(__file__).resolve().parent.parent
muts = json.loads((VERIF / "tools" / "mutants.json").read_text())

def run(mid, checks):
    m = muts[mid]
    base = Path(tempfile.mkdtemp(prefix="vfmut_"))
    try:
        # the committed tree of /repo (not the working tree: a seeded patch may be applied there at this moment)
        subprocess.run("git -C /repo archive HEAD src | tar -x -C " + str(base), shell=True, check=True)
        f = base / "src" / "safeds_stubgen" / m["file"]
        s = f.read_text()
        if s.count(m["old"]) < 1:
            print(f"{mid}: pattern not found in {m['file']}"); return None
        f.write_text(s.replace(m["old"], m["new"], m.get("count", 1)))
        out = {}
        for c in checks or m["checks"]:
            env = dict(os.environ, PYTHONPATH=str(base / "src"), VERIF_OUT_DIR=str(base / "out"))
            t = time.time()
            cp = subprocess.run([str(VERIF / "check"), c, "--tier", "quick"], env=env, capture_output=True, text=True)
            viol = [l for l in cp.stdout.splitlines() if l.startswith("VIOLATION")]
            detail = [l for l in cp.stdout.splitlines() if l.startswith("  kind=")]
            out[c] = (cp.returncode, len(viol))
            print(f"{mid:28s} {c}: exit={cp.returncode} violations={len(viol)} {time.time()-t:.0f}s  {detail[0][:150] if detail else ''}")
            if cp.returncode == 2: print(cp.stderr[-800:])
        return out
    finally:
        shutil.rmtree(base, ignore_errors=True)

if __name__ == "__main__":
    which = sys.argv[1]
    checks = sys.argv[2:]
    ids = list(muts) if which == "all" else [which]
    for mid in ids:
        run(mid, checks)
