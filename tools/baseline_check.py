#!/usr/bin/env python3
"""Runs the repository's pinned test suite and checks that every stable_pass test of BASELINE.json still passes."""
import json, subprocess, sys, tempfile, os
import xml.etree.ElementTree as ET
b = json.load(open("/root/.vp/BASELINE.json"))
fd, path = tempfile.mkstemp(suffix=".xml"); os.close(fd)
cmd = b["cmd"].replace("<file>", path)
subprocess.run(cmd, shell=True, stdout=subprocess.DEVNULL, stderr=subprocess.DEVNULL)
passed = set()
for tc in ET.parse(path).getroot().iter("testcase"):
    if not any(ch.tag in {"failure", "error", "skipped"} for ch in tc):
        passed.add(f"{tc.get('classname')}::{tc.get('name')}")
os.unlink(path)
missing = [t for t in b["stable_pass"] if t not in passed]
print(f"baseline: {len(b['stable_pass']) - len(missing)}/{len(b['stable_pass'])} stable tests pass; {len(passed)} tests pass in total")
for m in missing[:20]: print("  MISSING", m)
sys.exit(1 if missing else 0)
