#!/bin/bash
# usage: tools/seedtest.sh <patch file> <check id>...
# Runs the quick checks against a scratch copy of /repo's committed tree with the patch applied (PYTHONPATH override, as
# tools/mut.py does), so /repo itself is never modified and several of these can run side by side.
# (Equivalent to: git -C /repo apply <patch>; ./check ...; git -C /repo checkout -- .)
set -u
patch=$(readlink -f "$1"); shift
base=$(mktemp -d)
git -C /repo archive HEAD src | tar -x -C "$base" || exit 2
( cd "$base" && git init -q . && git apply "$patch" ) || { echo "patch does not apply"; rm -rf "$base"; exit 2; }
for c in "$@"; do
  PYTHONPATH=$base/src VERIF_OUT_DIR=$base/out /verif/check "$c" --tier quick 2>&1 | grep -v -E "Hypothesis|text_repr|KNOWN-FINDING|SyntaxWarning" | grep -E "VIOLATION|kind=|^\[C" | head -6
done
rm -rf "$base"
