#!/bin/bash
# usage: tools/seedtest.sh <patch file> <check id>...   applies the patch to /repo, runs the quick checks, reverts
set -u
patch="$1"; shift
git -C /repo diff --quiet || { echo "/repo has local changes, refusing"; exit 2; }
git -C /repo apply "$patch" || { echo "patch does not apply"; exit 2; }
out=$(mktemp -d)
for c in "$@"; do
  VERIF_OUT_DIR=$out /verif/check "$c" --tier quick 2>&1 | grep -v -E "Hypothesis|text_repr|KNOWN-FINDING|SyntaxWarning" | grep -E "VIOLATION|kind=|^\[C" | head -6
done
git -C /repo checkout -- . ; rm -rf "$out" /repo/.mypy_cache
git -C /repo status --short | head -3
