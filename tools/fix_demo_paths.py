#!/usr/bin/env python3
"""Rewrites the worktree paths in /verif/seeded/*/demo.py to SEEDED_TREE (default /repo), so a demo runs against whatever
tree the patch was applied to. Idempotent."""
import glob, re
for f in glob.glob('/verif/seeded/*/demo.py'):
    s = open(f).read()
    s2 = re.sub(r'"/tmp/w[t2345]+_[cC]\d\d/src"', '(__import__("os").environ.get("SEEDED_TREE", "/repo") + "/src")', s)
    s2 = re.sub(r'"/tmp/w[t2345]+_[cC]\d\d"', '__import__("os").environ.get("SEEDED_TREE", "/repo")', s2)
    s2 = re.sub(r'^(WORKTREE|TREE|ROOT|REPO|HERE|WT) = Path\(__file__\)\.resolve\(\)\.parent$', r'\1 = Path(__import__("os").environ.get("SEEDED_TREE", "/repo"))', s2, flags=re.M)
    if s2 != s:
        open(f, 'w').write(s2)
        print("rewrote", f)
