#!/usr/bin/env python3
"""Regenerates /verif/MANIFEST.json from the table below and validates it against the schema."""
from __future__ import annotations

import json
import sys
from pathlib import Path

VERIF = Path(__file__).resolve().parent.parent

SETUP = (
    "/venv/bin/python -c 'import hypothesis' 2>/dev/null || "
    "/venv/bin/pip install -q --no-index --find-links /opt/veriftools/wheels hypothesis; "
    "/venv/bin/pip install -q --no-index --find-links /opt/veriftools/wheels --target /verif/.deps atheris >/dev/null 2>&1 || true; "
    "chmod +x /verif/check; /venv/bin/python -m compileall -q /verif/vf >/dev/null; true"
)

TRUST = (
    "Trusted: CPython 3.12, mypy 1.20.2, griffe, Hypothesis 6.168; the hand-written Safe-DS stub recogniser and the "
    "reference translations in /verif/vf (lenient where the grammar is not available offline). Exploration only: "
    "absence of violations outside the generated domain is not established."
)

# id -> (engine, technique, level text, design_ref)
CHECKS: dict[str, tuple[str, str, str, str]] = {
    "C19": (
        "E2 function engine",
        "property-based testing: exhaustive enumeration (depth<=1) + Hypothesis recursive terms against algebraic laws (round trip, symmetry, eq=>hash)",
        "Every term of depth<=1 over a 21-leaf alphabet, a strided sample of depth 2 and thousands of random deep terms and equal-by-construction pairs are judged against the five laws of the statement; a counterexample is shrunk structurally and replayed without Hypothesis.",
        "§5 C19",
    ),
}

CHECKS.update({
    "C05": (
        "E1 package engine",
        "property-based testing: exhaustive depth<=1 / strided depth-2 enumeration + Hypothesis-drawn annotation terms, in 5 positions, against a reference translation (canonical type trees)",
        "Every annotation term of depth<=1 over the full alphabet, depth-2 terms over a reduced alphabet and random terms to depth 3-4 are translated by the real pipeline in five positions and compared with a reference translation written from the statement; unions are also checked for duplicate members.",
        "§5 C05",
    ),
    "C06": (
        "E1 package engine",
        "property-based testing: exhaustive kind-sequence x default-mask enumeration + Hypothesis-drawn signatures against the generated signature itself (stub and API JSON)",
        "All legal parameter-kind sequences up to length 3 (quick) / 5 (thorough) with every legal default placement on five kinds of holder, plus random signatures with literal and non-literal defaults and odd receivers, are compared parameter by parameter (names, order, default values as evaluated by Python, passing kind, optionality) in stub and API JSON.",
        "§5 C06",
    ),
    "C20": (
        "E1 package engine",
        "property-based testing: Hypothesis-drawn declarations carrying random subsets of the flagged features in permuted order; oracle = marker classes expected from each declaration's own generated features",
        "Declarations (functions, methods, constructors, attributes, properties, classes with 0-3 bases) draw flagged and unflagged constructs independently; the set of marker classes in the comment block in front of every stub declaration must equal the set derived from that declaration alone, so missing markers and markers leaking to neighbours are both seen.",
        "§5 C20",
    ),
    "C02": (
        "E1 package engine",
        "property-based testing / grammar-based fuzzing: Hypothesis-drawn identifiers (incl. every Safe-DS keyword in every position), strings, numbers and docstring texts; oracle = independent recursive-descent recogniser of the stub grammar",
        "Every stub file of every generated package must be accepted as a whole by a hand-written recogniser with its own reserved-word table; a deterministic sweep puts each of the 23 Python-legal keywords (three spellings) in every declaration position under both naming settings; random packages cover hostile strings and docstrings in all four docstring styles.",
        "§5 C02",
    ),
    "C07": (
        "E1 package engine",
        "property-based testing: Hypothesis-drawn function bodies from a statement grammar, symbolically evaluated by the ground truth to return shapes (coverage oracle); return annotations x docstring result entries (count/order/name oracle)",
        "Un-annotated bodies with literal, signed, tuple and conditional returns nested in if/elif/else, try/except/else/finally, for/while/else, with, match and nested defs are evaluated to their return shapes and every literal at every position must be covered by the stub result at that position; annotated functions are judged for result count, order, translated type and names (NumPy names, result_N otherwise) and agreement with the API JSON.",
        "§5 C07",
    ),
    "C01": (
        "E1 package engine",
        "grammar-based fuzzing with Hypothesis: generated 'wild' packages x option combinations against a total-function / clean-rejection predicate, exceptions bucketed by (type, innermost tool frame), collect-then-shrink",
        "Packages generated from a grammar of declaration forms, statement bodies, expressions, decorators, class-body statements, special forms and well-/malformed docstrings are run through the real entry point under one of the 64 option combinations each; the run must finish with a parseable API file or reject with the documented error exactly when nothing is analysable. Failures are bucketed by root cause and minimised by parallel delta debugging on declaration chunks and lines.",
        "§5 C01",
    ),
    "C03": (
        "E1 package engine",
        "property-based testing: Hypothesis-drawn package trees with re-exports against a ground-truth inventory (every public declaration exactly once, in an allowed container, nothing unknown emitted)",
        "For generated package trees (private/public packages and modules, nested classes, all member kinds, enums, re-exports by name / alias / star / module, relative or absolute, to the own or an ancestor package) the multiset of declarations recovered from all stub files is compared in both directions with the inventory the ground truth derives from the property text.",
        "§5 C03",
    ),
    "C04": (
        "E1 package engine",
        "property-based testing: the structure generator with privacy pools turned up; negative whole-output oracle (no private declaration in any stub) + API is_public flags against ground-truth publicity",
        "Every declaration that is private by the stated convention (and not re-exported under a public name) must be absent from every stub under every name it could have, and the is_public flag of every class, function and attribute entry of the API JSON must equal the ground-truth publicity.",
        "§5 C04",
    ),
    "C10": (
        "E1 package engine",
        "property-based testing: Hypothesis-drawn package trees x output/source path spellings; oracle = path<->header relation read from each file, no output outside OUT, file count vs. virtual file list, API file name",
        "For every stub file of every generated tree the directory must spell the Python module path the file announces and the base name must be the module (without leading underscores) or the single re-exported declaration; nothing may be written outside OUT; as many files must exist as distinct virtual files were generated (two texts never share a path); the inventory must be '<source dir name>__api.json' for package, parent and dotted source directories and absolute/relative/nested OUT.",
        "§5 C10",
    ),
    "C12": (
        "E1 package engine",
        "property-based testing: Hypothesis-drawn packages; oracle = structural invariants of the JSON (sorted, unique, id shape, reference resolution, exactly-one-owner) + completeness/flags against the ground-truth inventory",
        "The API file of every generated package is checked for internal consistency on its own, and its multiset of (kind, id) entries, the static / class-method / property flags and the superclass lists (four import forms, source order) are compared with the inventory derived from the generated source, private declarations included.",
        "§5 C12",
    ),
    "C11": (
        "E1 package engine",
        "property-based testing: Hypothesis-drawn packages with cross-module class references; oracle = cross-file symbol resolution over the parsed stub set (independent recogniser)",
        "Every named type, generic, superclass and type-parameter bound of every stub file must resolve to a built-in mapping, a declaration of the same file, an import of that file, and every import line must name a package and a declaration present in the generated stub set, placeholder stubs included.",
        "§5 C11",
    ),
    "C17": (
        "E1 package engine",
        "property-based testing: Hypothesis-drawn class hierarchies (chains, multiple private bases, explicit diamonds, two modules, overriding at every level); oracle = member set and definer from Python's own MRO (classes built with type()), sub list = public direct bases in source order",
        "For every public class of every generated hierarchy the stub must show each public method of the class and of its private ancestors exactly once, with the definition Python's MRO selects (identified by a parameter named after the defining class), must not name private ancestors in 'sub', and must list the public direct bases in source order, imported when defined in the other module.",
        "§5 C17",
    ),
    "C09": (
        "E2 function engine + E4 relation engine",
        "exhaustive enumeration + Hypothesis on the conversion function against a reference conversion; metamorphic relation between the -nc off / on runs of generated packages (names, annotations iff changed, equality after mapping back)",
        "All identifiers over a 7-letter alphabet up to length 6/7 and random identifiers to length 40 are converted and compared with a reference written from the statement (identity, idempotence, identifier-ness); every generated package is run with and without naming conversion and the two stub sets must agree on every recoverable Python name, carry @PythonName/@PythonModule exactly where the rendering differs, and be equal in everything else.",
        "§5 C09",
    ),
    "C16": (
        "E3 history engine + E4 relation engine",
        "stateful property-based testing: Hypothesis RuleBasedStateMachine over one API object (generate fresh / generate again / serialise in any order) with model-immutability and first-generation-equality invariants; double console-script runs into one directory",
        "State machines own the history of calls on one API model of a generated package (optional literals, literal unions, *args, aliased re-exports, private bases shared by several subclasses, foreign classes); after every step the canonical serialisation of the model must be unchanged, every generation must reproduce the first one with the same naming setting, and inlined copies of one method must be identical; two CLI runs into one directory must leave the tree of a single run. A failing history is shrunk and replayed without Hypothesis.",
        "§5 C16",
    ),
    "C08": (
        "E4 relation engine",
        "metamorphic property-based testing: one generated package run under perturbed hash seed / directory enumeration order (os.scandir, os.listdir wrapped by the harness) / working directory / path spelling / repetition; oracle = byte equality of API JSON and all stub files",
        "Tie-rich packages (one short class name in several modules, re-exports by several packages, several foreign classes per module, type variables, inferred and literal unions) are each run 12 times with identical contents and options while one environmental factor is varied; every run must produce the same set of paths and the same bytes.",
        "§5 C08",
    ),
    "C15": (
        "E4 relation engine",
        "metamorphic property-based testing: Hypothesis-drawn directory trees with excluded names and look-alikes, each run with the flag off and on; oracle = expected module set per flag, no excluded path segment when off, byte-identical stubs for unaffected modules, documented rejection when nothing remains",
        "Trees whose directories are named test / tests / docs (at any depth, nested in each other) or merely look like it (testing, mytests, docs_old, Test, tests_extra, doc; files test_x.py, tests.py, docs.py) are analysed with the flag off and on; the set of module ids, the declarations in the API JSON, the stub paths and the bytes of the stubs of unaffected modules are compared with what the tree implies.",
        "§5 C15",
    ),
    "C18": (
        "E4 relation engine",
        "metamorphic property-based testing: pairs of packages that differ by an unrelated module (removed / renamed / changed / added / moved before or after, possibly reusing the target's names) or by a permutation of the target's declarations; oracle = byte equality of the target's stubs, resp. equal header and equal multiset of declaration blocks",
        "A target module with classes, a private base, functions, an enum, forward-referencing list attributes and a re-exported class is analysed together with an unrelated module that in half of the cases reuses the target's class, function, enum, private-base and module names; seven variants of the unrelated part and one permutation of the target's declarations must leave the target's stub files unchanged (up to the order of its declarations).",
        "§5 C18",
    ),
    "C14": (
        "E4 relation engine",
        "property-based testing over the full (hint, docstring type) matrix per slot x 3 docstring styles, each case run under 2 preferences x 2 warning settings; oracle = statement's table per slot, byte equality of WARN/IGNORE outputs, multiset of logged discrepancy warnings",
        "Every parameter and result of generated functions, methods and constructors draws one of the five (hint, docstring type) combinations; the stub type of each slot under CODE and DOCSTRING, the byte-identity of all files between WARN and IGNORE, and the multiset of 'Different type hint and docstring types' records on the root logger (exactly one per differing slot under WARN, none under IGNORE) are checked.",
        "§5 C14",
    ),
    "C13": (
        "E1 package engine + E3 history engine + E4 relation engine",
        "property-based testing with unique tokens in every documentation unit, each model rendered in four docstring styles (cross-style relation through one style-independent expected comment); Hypothesis RuleBasedStateMachine querying one DocstringParser in arbitrary order against the model",
        "Documentation models whose every line carries a unique token are rendered as NumPy, Google, reST and plain docstrings (declaration order, constructor position and repeated parameter / method names varied), and the doc comment of every stub declaration is compared line for line with the comment the model implies; state machines ask one parser for class, function, parameter, attribute, result and constructor documentation in arbitrary order and every answer must equal the model regardless of history.",
        "§5 C13",
    ),
})

NOT_YET = "check not built yet"


def main() -> int:
    props = [json.loads(l)["id"] for l in (VERIF / "properties.jsonl").read_text().splitlines() if l.strip()]
    checks = []
    for pid in props:
        if pid not in CHECKS:
            continue
        engine, technique, text, ref = CHECKS[pid]
        checks.append(
            {
                "property_id": pid,
                "quick_cmd": f"./check {pid} --tier quick",
                "thorough_cmd": f"./check {pid} --tier thorough",
                "evidence_file": f"/verif/evidence/{pid}.json",
                "replay_cmd_template": f"./check {pid} --replay {{path}}",
                "engine": engine,
                "level_claimed": {"category": "exploration", "text": text, "design_ref": ref},
                "level_note": TRUST,
                "technique": technique,
            },
        )
    manifest = {
        "version": 1,
        "setup_cmd": SETUP,
        "hooks": {
            "guard": "SAFE_DS_STUB_GENERATOR_VERIF",
            "enable": "no hook is compiled into /repo: every property is observable from outside (CLI, files, logger, public functions); checks import /repo/src through /venv's editable install",
            "baseline_off_cmd": "cd /repo && /venv/bin/python -m pytest -ra -q -p no:cacheprovider --timeout=900 --continue-on-collection-errors",
            "source_commits": [],
            "add_only": True,
        },
        "engines": [
            {"name": "E1 package engine", "path": "vf/gen, vf/pipeline.py, vf/sdsparse.py", "serves_properties": [p for p in props if p not in {"C19"}], "kind_free_text": "Hypothesis strategies build a ground-truth package model, rendered to source, run through the real pipeline in worker processes, output parsed by an independent recogniser and compared with the model"},
            {"name": "E2 function engine", "path": "vf/props/c19.py, vf/props/c09.py", "serves_properties": ["C09", "C19"], "kind_free_text": "exhaustive enumeration / Hypothesis / atheris on pure functions"},
            {"name": "E3 history engine", "path": "vf/props/c16.py, vf/props/c13.py", "serves_properties": ["C13", "C16"], "kind_free_text": "Hypothesis RuleBasedStateMachine owning the order of calls on one long-lived object"},
            {"name": "E4 relation engine", "path": "vf/props", "serves_properties": ["C08", "C09", "C13", "C14", "C15", "C16", "C18"], "kind_free_text": "metamorphic relations between pipeline runs that differ in one controlled aspect"},
        ],
        "checks": checks,
        "notes": "All checks: ./check <id> --tier quick|thorough; VERIF_SEED selects the seed; exit 2 = harness error. known_findings.json lists repaired (fixed:) and recorded (open) genuine defects.",
        "not_applicable": [{"property_id": p, "reason": NOT_YET} for p in props if p not in CHECKS],
    }
    out = VERIF / "MANIFEST.json"
    out.write_text(json.dumps(manifest, indent=1) + "\n")
    try:
        import jsonschema

        schema = json.loads(Path("/root/.vp/MANIFEST.schema.json").read_text())
        jsonschema.validate(manifest, schema)
        print("MANIFEST.json valid;", len(checks), "checks,", len(manifest["not_applicable"]), "not_applicable")
    except ImportError:
        print("jsonschema not available; wrote MANIFEST.json unvalidated")
    return 0


if __name__ == "__main__":
    sys.exit(main())
