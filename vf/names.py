"""Reference naming conversion, written from the statement of C09 and the 13 upstream examples (not from the code).

SAFE_DS convention: leading and trailing underscores are stripped, every remaining run of underscores is deleted and
the character following it is upper-cased; class names additionally get their first character upper-cased;
nothing else changes. PYTHON convention: identity. The single underscore stays as it is.
"""

from __future__ import annotations

from vf.sdsparse import KEYWORDS


def ref_convert(name: str, is_class: bool = False) -> str:
    if name == "_":
        return name
    core = name.strip("_")
    parts = [p for p in core.split("_")]
    out = []
    first = True
    for p in parts:
        if p == "":
            continue
        if first and not is_class:
            out.append(p)
        else:
            out.append(p[0].upper() + p[1:])
        first = False
    return "".join(out)


def ref_convert_path(dotted: str) -> str:
    """Package paths are converted segment by segment (lowerCamelCase each)."""
    return ".".join(ref_convert(seg) for seg in dotted.split("."))


def rendered(name: str, nc: bool, is_class: bool = False) -> str:
    """Identifier text expected in the stub for a Python name (without back-quotes)."""
    return ref_convert(name, is_class) if nc else name


def needs_quotes(ident: str) -> bool:
    return ident in KEYWORDS
