"""Shared plumbing of the /verif checks: context, evidence, known findings, replay files.

Nothing in here imports the code under test.
"""

from __future__ import annotations

import hashlib
import json
import os
import sys
import time
from collections import Counter
from pathlib import Path
from typing import Any

VERIF = Path(__file__).resolve().parent.parent
REPO = Path(os.environ.get("VERIF_REPO", "/repo"))
KNOWN_FILE = VERIF / "known_findings.json"

EXIT_OK = 0
EXIT_VIOLATION = 1
EXIT_HARNESS = 2


class HarnessError(Exception):
    """The machinery itself is broken (generator, recogniser, worker). Never a VIOLATION."""


def env_seed() -> int:
    try:
        return int(os.environ.get("VERIF_SEED", "1"))
    except ValueError:
        return 1


def derive_seed(*parts: Any) -> int:
    """Deterministic 63-bit seed from the parts (no use of hash(), which is salted)."""
    h = hashlib.sha256("/".join(str(p) for p in parts).encode()).digest()
    return int.from_bytes(h[:8], "big") >> 1


def sha1_of(obj: Any) -> str:
    return hashlib.sha1(json.dumps(obj, sort_keys=True, default=str).encode()).hexdigest()


class Discrepancy(dict):
    """kind, element, tags, detail (+ case) — a dict so that it pickles / serialises trivially."""

    @staticmethod
    def make(kind: str, element: str, detail: str, tags: list[str] | tuple[str, ...] = (), **extra: Any) -> Discrepancy:
        d = Discrepancy(kind=kind, element=element, detail=detail, tags=sorted(set(tags)))
        d.update(extra)
        return d


class Known:
    """Reader of the committed known-findings file. Never written at run time."""

    def __init__(self, prop: str) -> None:
        self.prop = prop
        self.entries: list[dict] = []
        if KNOWN_FILE.exists():
            data = json.loads(KNOWN_FILE.read_text())
            self.entries = [e for e in data.get("findings", []) if e.get("property") == prop]
        self.hits: Counter = Counter()

    @property
    def open_entries(self) -> list[dict]:
        return [e for e in self.entries if e.get("status") == "open"]

    @property
    def fixed_entries(self) -> list[dict]:
        return [e for e in self.entries if e.get("status") == "fixed"]

    def match(self, d: dict) -> dict | None:
        """An open finding suppresses a discrepancy only if kind AND a tag on the failing element match."""
        for e in self.open_entries:
            if e.get("kind") != d.get("kind"):
                continue
            tag = e.get("tag")
            if tag is None or tag in (d.get("tags") or []):
                self.hits[e["id"]] += 1
                return e
        return None

    def split(self, discrepancies: list[dict]) -> tuple[list[dict], list[dict]]:
        new, known = [], []
        for d in discrepancies:
            (known if self.match(d) else new).append(d)
        return new, known


class Ctx:
    def __init__(self, prop: str, tier: str) -> None:
        self.prop = prop
        self.tier = tier
        self.seed = env_seed()
        try:
            self.scale = float(os.environ.get("VERIF_SCALE", "1"))
        except ValueError:
            self.scale = 1.0
        self.t0 = time.time()
        self.known = Known(prop)
        self.evaluations = 0
        self.nontrivial: set[str] = set()
        self.nontrivial_extra = 0
        self.stats: Counter = Counter()
        self.samples: list[Any] = []
        self.assumptions: list[str] = []
        self.rule = ""
        self.extra: dict[str, Any] = {}
        self.violations: list[tuple[dict, str]] = []  # (discrepancy, replay path)
        self.known_lines: list[str] = []
        self.exhaustive = False
        self.workers = int(os.environ.get("VERIF_WORKERS", "0")) or min(16, os.cpu_count() or 4)

    # ---- counting -------------------------------------------------------------------------
    def n(self, quick: int, thorough: int) -> int:
        base = quick if self.tier == "quick" else thorough
        return max(1, int(base * self.scale))

    def add_sample(self, sample: Any, limit: int = 10) -> None:
        if len(self.samples) < limit:
            self.samples.append(sample)

    def note_nontrivial(self, key: Any) -> None:
        self.nontrivial.add(key if isinstance(key, str) else sha1_of(key))

    # ---- findings -------------------------------------------------------------------------
    def save_replay(self, payload: dict, sub: str = "replays") -> str:
        name = sha1_of(payload)[:16] + ".json"
        base = Path(os.environ["VERIF_OUT_DIR"]) if os.environ.get("VERIF_OUT_DIR") else VERIF
        d = base / sub / self.prop
        d.mkdir(parents=True, exist_ok=True)
        p = d / name
        p.write_text(json.dumps(payload, indent=1, sort_keys=True, default=str))
        return str(p.relative_to(VERIF)) if p.is_relative_to(VERIF) else str(p)

    def violation(self, disc: dict, payload: dict) -> None:
        path = self.save_replay({"property": self.prop, "discrepancy": disc, **payload})
        self.violations.append((disc, path))
        print(f"VIOLATION property={self.prop} replay={path}", flush=True)
        print(f"  kind={disc.get('kind')} element={disc.get('element')} detail={str(disc.get('detail'))[:400]}", flush=True)

    def known_finding(self, entry: dict, note: str = "") -> None:
        line = f"KNOWN-FINDING: property={self.prop} {entry['id']}: {entry['what']}"
        if note:
            line += f" [{note}]"
        if line not in self.known_lines:
            self.known_lines.append(line)
            print(line, flush=True)

    # ---- evidence -------------------------------------------------------------------------
    def write_evidence(self) -> None:
        ev = {
            "property_id": self.prop,
            "tier": self.tier,
            "seed": self.seed,
            "level": "exploration",
            "coverage": {
                "evaluations": int(self.evaluations),
                "distinct_nontrivial": int(len(self.nontrivial) + self.nontrivial_extra),
                "rule": self.rule,
                "samples": self.samples[:10] or ["(no sample recorded)"],
                "exhaustive": bool(self.exhaustive),
                "class_distribution": {k: int(v) for k, v in sorted(self.stats.items())},
                "known_finding_hits": {k: int(v) for k, v in sorted(self.known.hits.items())},
                **self.extra,
            },
            "assumptions": self.assumptions,
            "wall_s": round(time.time() - self.t0, 2),
            "violations": len(self.violations),
        }
        d = (Path(os.environ["VERIF_OUT_DIR"]) if os.environ.get("VERIF_OUT_DIR") else VERIF) / "evidence"
        d.mkdir(parents=True, exist_ok=True)
        (d / f"{self.prop}.json").write_text(json.dumps(ev, indent=1, default=str) + "\n")

    def finish(self) -> int:
        self.write_evidence()
        print(
            f"[{self.prop}] tier={self.tier} seed={self.seed} evaluations={self.evaluations} "
            f"nontrivial={len(self.nontrivial) + self.nontrivial_extra} violations={len(self.violations)} "
            f"known_hits={sum(self.known.hits.values())} wall={time.time() - self.t0:.1f}s",
            flush=True,
        )
        return EXIT_VIOLATION if self.violations else EXIT_OK


def trunc(s: Any, n: int = 300) -> str:
    s = str(s)
    return s if len(s) <= n else s[: n - 3] + "..."


def die_harness(msg: str) -> None:
    print(f"HARNESS-ERROR: {msg}", file=sys.stderr, flush=True)
    sys.exit(EXIT_HARNESS)
