"""Grammar-based generator of 'wild' but valid Python packages for C01 (robustness): every declaration form the
analyser has to survive, arbitrary bodies, expressions, decorators, imports, docstrings.

A case is {"modules": [{"path": [...], "chunks": [{"src": str, "tags": [...]}, ...]}], "inits": {"pkg/sub": [lines]},
           "options": {...}}; chunks are self-contained top-level declarations over a fixed module prelude, so that
delta debugging may drop any of them.
"""

from __future__ import annotations

from typing import Any

from hypothesis import strategies as st

PRELUDE = '''from __future__ import annotations

import abc
import dataclasses
import enum
import functools
import math
import os
import typing
from collections.abc import Callable, Collection, Iterator, Mapping, Sequence
from dataclasses import dataclass
from enum import Enum, IntEnum
from typing import TYPE_CHECKING, Any, ClassVar, Final, Generic, Literal, NamedTuple, Optional, Protocol, TypedDict, TypeVar, Union, overload

if TYPE_CHECKING:
    from pathlib import Path

TW = TypeVar("TW")
TB = TypeVar("TB", bound=int)
TC = TypeVar("TC", int, str)
T_co = TypeVar("T_co", covariant=True)
T_contra = TypeVar("T_contra", contravariant=True)
CONST_I = 3
CONST_S: str = "s"
_PRIV = 1.5


def helper(*args, **kwargs):
    return args


def deco(fn):
    @functools.wraps(fn)
    def wrapper(*a, **k):
        return fn(*a, **k)

    return wrapper


def deco_args(x):
    def inner(fn):
        return fn

    return inner


class Plain:
    attr_p: int = 1

    def meth(self) -> int:
        return 1


class _Hidden:
    def shown(self) -> str:
        return ""


class GenBox(Generic[TW]):
    def __init__(self, v: TW) -> None:
        self.v = v
'''

TYPE_ATOMS = [
    "int", "str", "bool", "float", "None", "Any", "bytes", "object", "complex", "Plain", "_Hidden", "GenBox[int]", "GenBox[Plain]", "TW", "TB",
    "list", "dict", "tuple", "set", "type", "type[Plain]", "Callable", "Callable[..., int]", "tuple[int, ...]", "tuple[()]", "frozenset[int]",
    "Literal['a', 1, None]", "Literal[True]", "typing.Any", "typing.List[int]", "typing.Dict[str, Any]", "os.PathLike", "Path", "math.inf.__class__",
    "Iterator[int]", "range", "slice", "BaseException", "Exception", "enum.Enum", "abc.ABC", "dataclasses.Field", "'Plain'", "'int | None'",
]  # fmt: skip


def type_src(depth: int = 2) -> st.SearchStrategy:
    atom = st.sampled_from(TYPE_ATOMS)
    if depth <= 0:
        return atom
    sub = st.deferred(lambda: type_src(depth - 1))
    return st.one_of(
        atom,
        atom,
        st.builds(lambda a: f"list[{a}]", sub),
        st.builds(lambda a: f"set[{a}]", sub),
        st.builds(lambda a, b: f"dict[{a}, {b}]", sub, sub),
        st.builds(lambda a, b: f"Mapping[{a}, {b}]", sub, sub),
        st.builds(lambda a: f"Sequence[{a}]", sub),
        st.builds(lambda a: f"Collection[{a}]", sub),
        st.builds(lambda a: f"Optional[{a}]", sub),
        st.builds(lambda a: f"{a} | None", sub.filter(lambda s: not s.startswith("'"))),
        st.builds(lambda a, b: f"Union[{a}, {b}]", sub, sub),
        st.builds(lambda a, b: f"tuple[{a}, {b}]", sub, sub),
        st.builds(lambda a, b: f"Callable[[{a}], {b}]", sub, sub),
        st.builds(lambda a, b: f"list[{a}, {b}]", sub, sub),
        st.builds(lambda a: f"Final[{a}]", sub),
        st.builds(lambda a: f"ClassVar[{a}]", sub),
        st.builds(lambda a: f"type[{a}]", atom),
    )


EXPR_ATOMS = [
    "a", "b", "CONST_I", "CONST_S", "_PRIV", "Plain", "Plain()", "math", "math.pi", "1", "0", "-1", "1.5", "1e999", "'s'", "b'x'", "True", "None", "...", "2j",
    "[]", "{}", "()", "set()", "[1, 2]", "{'k': 1}", "{1, 2}", "(1,)", "helper(a)", "helper", "a.attr", "a[0]", "a[1:2]", "lambda x: x", "f'{a}!'",
    "'x' 'y'", "int", "type(a)", "self", "cls", "__name__", "NotImplemented", "os.sep", "Plain.attr_p", "GenBox(1)", "super()", "[x for x in a]",
    "{k: v for k, v in a}", "(x for x in a)", "not a", "~a", "-a", "+a", "--1", "a if b else 1", "(yield)", "(c := a)",
    "helper(a, 1)", "dict(a=1, b=2)", "range(1, 2, 3)", "max(1, 2)", "str.join(',', a)", "a.b.c(1)(2)", "[*a, *b]", "{**a}", "a[::2, ...]", "1 < a <= 3", "-1.5e-3", "0x1F", "'%s' % a",
]  # fmt: skip


def expr_src(depth: int = 1) -> st.SearchStrategy:
    atom = st.sampled_from(EXPR_ATOMS)
    if depth <= 0:
        return atom
    sub = st.deferred(lambda: expr_src(depth - 1))
    return st.one_of(
        atom,
        atom,
        st.builds(lambda x, y, op: f"({x} {op} {y})", sub, sub, st.sampled_from(["+", "-", "*", "/", "//", "%", "**", "==", "!=", "<", "and", "or", "in", "is", "is not", "|", "&", "@"])),
        st.builds(lambda x, y: f"({x}, {y})", sub, sub),
        st.builds(lambda x, y: f"[{x}, {y}]", sub, sub),
        st.builds(lambda x, y: f"{{{x}: {y}}}", atom, sub),
        st.builds(lambda x, y, z: f"({x} if {y} else {z})", sub, sub, sub),
        st.builds(lambda x: f"helper({x})", sub),
        st.builds(lambda x: f"helper(key={x})", sub),
        st.builds(lambda x: f"({x}).real", sub),
        st.builds(lambda x: f"({x})[0]", sub),
        st.builds(lambda x: f"(*{x}, 1)", atom),
        st.builds(lambda x: f"(not {x})", sub),
    )


def _safe_expr(e: str, in_method: bool) -> str:
    # 'self'/'cls'/super() outside methods are merely undefined names for the type checker (no blocking error); keep
    # '(yield)' out of non-generator contexts where it would be a SyntaxError (class bodies / defaults / comprehension).
    return e


def stmt_block(depth: int, ind: str) -> st.SearchStrategy:
    """A list of source lines (already indented by `ind`)."""
    ret = expr_src(1).map(lambda e: [f"{ind}return {e}"])
    simple = st.one_of(
        ret,
        ret,
        st.just([f"{ind}return"]),
        st.just([f"{ind}pass"]),
        expr_src(1).map(lambda e: [f"{ind}b = {e}"]),
        expr_src(1).map(lambda e: [f"{ind}b: int = {e}"]),
        expr_src(0).map(lambda e: [f"{ind}helper({e})"]),
        expr_src(0).map(lambda e: [f"{ind}raise ValueError({e})"]),
        st.just([f"{ind}b, (c, d) = 1, (2, 3)"]),
        st.just([f"{ind}global CONST_I"]),
        st.just([f"{ind}del a"]),
        st.just([f"{ind}assert a, 'msg'"]),
        st.just([f"{ind}import json", f"{ind}return json"]),
        expr_src(0).map(lambda e: [f"{ind}yield {e}"]),
        expr_src(0).map(lambda e: [f"{ind}yield from {e}"]),
    )
    if depth <= 0:
        return st.lists(simple, min_size=1, max_size=2).map(lambda xs: [ln for x in xs for ln in x])
    sub = st.deferred(lambda: stmt_block(depth - 1, ind + "    "))
    compound = st.one_of(
        st.builds(lambda b, e: [f"{ind}if a:", *b, f"{ind}elif b:", *e, f"{ind}else:", *b], sub, sub),
        st.builds(lambda b, h, e, f: [f"{ind}try:", *b, f"{ind}except (ValueError, KeyError) as exc:", *h, f"{ind}else:", *e, f"{ind}finally:", *f], sub, sub, sub, sub),
        st.builds(lambda b, e: [f"{ind}for i, (j, k) in enumerate(a):", *b, f"{ind}else:", *e], sub, sub),
        st.builds(lambda b: [f"{ind}while True:", *b, f"{ind}    break"], sub),
        st.builds(lambda b: [f"{ind}with open(a) as fh, helper() as (x, y):", *b], sub),
        st.builds(lambda b, c: [f"{ind}match a:", f"{ind}    case [1, *rest] | {{'k': rest}}:", *[f"    {x}" for x in b], f"{ind}    case Plain(attr_p=1) if b:", *[f"    {x}" for x in c], f"{ind}    case _:", f"{ind}        pass"], sub, sub),
        st.builds(lambda b: [f"{ind}def nested(q=1, *r):", *b, f"{ind}return nested"], sub),
        st.builds(lambda b: [f"{ind}class Local:", f"{ind}    z = 1", f"{ind}    def m(self):", *[f"    {x}" for x in b], f"{ind}return Local"], sub),
        st.builds(lambda b: [f"{ind}async def co():", *b], sub),
    )
    return st.lists(st.one_of(simple, simple, compound), min_size=1, max_size=3).map(lambda xs: [ln for x in xs for ln in x])


DOCSTRINGS = [
    None,
    "Plain one-liner.",
    "Summary.\n\nLonger text\n  with indentation\n\n>>> f(1)\n... more\n2\n",
    "Numpy.\n\nParameters\n----------\na : int\n    first\nb : str, optional, default='x'\n    second\n*args : float\n**kwargs\n\nReturns\n-------\nres : bool\n    yes\nint\n    second\n\nExamples\n--------\n>>> f(1)\n1\n",
    "Numpy broken.\n\nParameters\n----------\na\nb :\n : int\n\nReturns\n-------\n\nAttributes\n----------\nx : {\"a\", 'b'}\n    enum\ny : float in the range [0.0, 1.0)\n",
    "Google.\n\nArgs:\n    a (int): first\n    b (list[str], optional): second. Defaults to [].\n    *args: rest\n\nReturns:\n    tuple[int, str]: both\n\nRaises:\n    ValueError: bad\n\nAttributes:\n    x (int): attr\n",
    "Google broken.\n\nArgs:\n    a int first\n    (b): x\n\nReturns:\n    :\n\nYields:\n    int: n\n",
    "reST.\n\n:param a: first\n:type a: int\n:param int b: second\n:param c:\n:returns: something\n:rtype: dict[str, int]\n:raises ValueError: bad\n",
    "reST broken.\n\n:param: nothing\n:type: int\n:rtype:\n:returns:\n:param a b c: too many\n",
    "Mixed.\n\nParameters\n----------\nArgs:\n    a: x\n:param a: y\n\nReturns\n-------\nReturns:\n",
    # type expressions of unusual shape in the type position (boolean operators with literal operands, sets, ellipsis, calls)
    "Numpy types.\n\nParameters\n----------\na : int or 0\n    x\nb : str or True, optional\n    y\nc_ : float or 1.5 or ...\n_d : list of int or None\ne1 : {1, 2.5, None}\nfooBar : int and 3\ng_h_i : dict(str, int) or -1\n\nReturns\n-------\nint or 0\n    r\n",
    "Google types.\n\nArgs:\n    a (int or 0): x\n    b (str or True): y\n    c_ (float or 1.5): z\n    _d (int and ...): w\n    e1 (not int): v\n    fooBar (list[int] or [1, 2]): u\n\nReturns:\n    int or 0: r\n",
    "reST types.\n\n:param a: x\n:type a: int or 0\n:param b: y\n:type b: str or True\n:param c_: z\n:type c_: float or 1.5 or ...\n:rtype: int or 0\n",
    "Unicode λ and braces {x} and `code` and */ closer and \\ backslash.",
    "   \n\n   indented start\n",
    "",
]


def render_doc(doc: str | None, ind: str) -> list[str]:
    if doc is None:
        return []
    body = doc.replace("\\", "\\\\").replace('"""', "'''")
    lines = body.split("\n")
    out = [f'{ind}"""' + lines[0]]
    for ln in lines[1:]:
        out.append(f"{ind}{ln}" if ln.strip() else "")
    out[-1] = out[-1] + '"""' if len(lines) > 1 and out[-1].strip() else out[-1]
    if not (len(lines) > 1 and lines[-1].strip()):
        if len(lines) == 1:
            out[0] += '"""'
        else:
            out.append(f'{ind}"""')
    return out


@st.composite
def param_list(draw: Any, receiver: str | None = None) -> str:
    parts: list[str] = []
    if receiver:
        parts.append(receiver)
    names = ["a", "b", "c_", "_d", "e1", "fooBar", "g_h_i"]
    n_po = draw(st.integers(0, 2))
    n_p = draw(st.integers(0, 3))
    idx = 0
    defaulted = False

    def one(prefix: str = "") -> str:
        nonlocal idx, defaulted
        nm = names[idx % len(names)] + (str(idx) if idx >= len(names) else "")
        idx += 1
        s = prefix + nm
        has_ann = draw(st.booleans())
        if has_ann:
            s += ": " + draw(type_src(1))
        if not prefix and (defaulted or draw(st.integers(0, 2)) == 0):
            defaulted = True
            d = draw(expr_src(1))
            if "yield" in d or ":=" in d:
                d = "None"
            s += (" = " if has_ann else "=") + d
        return s

    for _ in range(n_po):
        parts.append(one())
    if n_po:
        parts.append("/")
    for _ in range(n_p):
        parts.append(one())
    star = draw(st.sampled_from(["none", "args", "bare"]))
    if star == "args":
        parts.append(one("*"))
    n_k = draw(st.integers(0, 2))
    if star == "bare" and n_k:
        parts.append("*")
    if star != "none" or False:
        defaulted = False
        for _ in range(n_k):
            defaulted = False
            parts.append(one())
    if draw(st.booleans()):
        parts.append(one("**"))
    return ", ".join(parts)


@st.composite
def function_chunk(draw: Any, name: str, ind: str = "", receiver: str | None = None, decorators: list[str] | None = None) -> list[str]:
    lines = [f"{ind}@{d}" for d in (decorators or [])]
    is_async = draw(st.integers(0, 6)) == 0
    ret = draw(st.one_of(st.none(), type_src(2)))
    params = draw(param_list(receiver))
    lines.append(f"{ind}{'async ' if is_async else ''}def {name}({params}){' -> ' + ret if ret else ''}:")
    lines += render_doc(draw(st.sampled_from(DOCSTRINGS)), ind + "    ")
    body = draw(stmt_block(draw(st.integers(0, 2)), ind + "    "))
    lines += body
    return lines


CLASS_BASES = [
    "", "Plain", "_Hidden", "Plain, _Hidden", "GenBox[int]", "Generic[TW]", "Generic[TW, TB]", "Generic[T_co]", "Generic[T_contra]", "Protocol", "Protocol[TW]",
    "abc.ABC", "metaclass=abc.ABCMeta", "Exception", "ValueError, Plain", "object", "dict", "list[int]", "typing.Generic[TW]", "Sequence[int]", "Collection[TW]",
    "Plain, Generic[TW]", "enum.Flag", "str, Enum", "int", "tuple",
]  # fmt: skip

CLASS_BODY_LINES = [
    "x = 1", "x: int", "x: int = 1", "y = z = 2", "p, q = 1, 2", "(r, s) = (1, 's')", "t: ClassVar[int] = 0", "u: Final = 3", "u2: Final[int] = 3", "v = helper()",
    "w: 'Plain' = None", "__slots__ = ('x', 'y')", "_private_attr: str = ''", "__dunder_attr__ = 1", "x = property(lambda self: 1)", "lst: list[Optional[Plain]] = []",
    "cb: Callable[[int], str] = str", "tv: TW", "nested: dict[str, list[tuple[int, ...]]] = {}", "lit: Literal['a', 'b'] = 'a'", "f = staticmethod(helper)",
    "a1 = a2 = a3 = None", "if TYPE_CHECKING:\n    tc_only: int", "for _i in range(2):\n    loop_attr = _i", "try:\n    tried = 1\nexcept Exception:\n    tried = 2",
    "x += 1" , "del_me = 1\ndel del_me", "pass", "...", "lam = lambda self, k=1: k", "import json as _json",
]  # fmt: skip

METHOD_DECOS = [
    [], [], [], ["staticmethod"], ["classmethod"], ["property"], ["abc.abstractmethod"], ["deco"], ["deco_args(1)"], ["functools.lru_cache(maxsize=None)"],
    ["classmethod", "deco"], ["staticmethod", "deco"], ["property", "abc.abstractmethod"], ["functools.cached_property"], ["typing.final"], ["typing.no_type_check"],
]  # fmt: skip


@st.composite
def class_chunk(draw: Any, name: str, ind: str = "", depth: int = 0) -> list[str]:
    lines = []
    for d in draw(st.sampled_from([[], [], [], ["dataclass"], ["dataclass(frozen=True)"], ["dataclass(order=True)"], ["typing.final"], ["deco_args(2)"], ["functools.total_ordering"]])):
        lines.append(f"{ind}@{d}")
    bases = draw(st.sampled_from(CLASS_BASES))
    lines.append(f"{ind}class {name}" + (f"({bases})" if bases else "") + ":")
    inner = ind + "    "
    lines += render_doc(draw(st.sampled_from(DOCSTRINGS)), inner)
    n0 = len(lines)
    for bl in draw(st.lists(st.sampled_from(CLASS_BODY_LINES), max_size=4)):
        lines += [inner + x for x in bl.split("\n")]
    mnames = draw(st.lists(st.sampled_from(["__init__", "__init__", "m1", "_m2", "__m3", "__call__", "__eq__", "m4", "prop", "__enter__", "__class_getitem__", "m1"]), max_size=4))
    for mn in mnames:
        decos = list(draw(st.sampled_from(METHOD_DECOS))) if mn != "__init__" else []
        recv = "self"
        if "staticmethod" in decos:
            recv = None
        elif "classmethod" in decos:
            recv = draw(st.sampled_from(["cls", "klass"]))
        else:
            recv = draw(st.sampled_from(["self", "self", "self", "this"]))
        lines.append("")
        if mn == "__init__":
            ps = draw(param_list(recv))
            lines.append(f"{inner}def __init__({ps}):")
            lines += render_doc(draw(st.sampled_from(DOCSTRINGS)), inner + "    ")
            body = draw(st.lists(st.sampled_from(
                ["self.ia = a", "self.ib: int = 1", "self.ic, self.idd = 1, 2", "self._ie = None", "self.ia = 2", "local = 1", "self.x = self.y = 0", "super().__init__()",
                 "self.lst: list[Optional[Plain]] = []", "if a:\n    self.cond = 1", "(self.p, (self.q, self.r)) = 1, (2, 3)", "self.d['k'] = 1", "self.fn = lambda: 1", "x.y = 1", "self.tv: TW = a"]), min_size=1, max_size=4))  # fmt: skip
            body = [b.replace("self.", f"{recv}.") for b in body]
            for b in body:
                lines += [inner + "    " + x for x in b.split("\n")]
        else:
            lines += draw(function_chunk(mn, inner, recv, decos))
            if "property" in decos and draw(st.booleans()):
                lines += ["", f"{inner}@{mn}.setter", f"{inner}def {mn}(self, value: int) -> None:", f"{inner}    self._v = value"]
    if draw(st.integers(0, 4)) == 0:
        # overload group inside the class
        lines += ["", f"{inner}@overload", f"{inner}def ov(self, x: int) -> int: ...", f"{inner}@overload", f"{inner}def ov(self, x: str) -> str: ...", f"{inner}def ov(self, x):", f"{inner}    return x"]
    if depth < 2 and draw(st.integers(0, 3)) == 0:
        lines.append("")
        lines += draw(class_chunk(draw(st.sampled_from(["Inner", "_InnerPriv", "Inner2"])), inner, depth + 1))
    if len(lines) == n0:
        lines.append(f"{inner}pass")
    return lines


SPECIAL_CHUNKS: list[tuple[str, list[str]]] = [
    ("class {n}(Enum):\n    RED = 1\n    GREEN = 'g'\n    BLUE = (1, 2)\n", ["enum:values"]),
    ("class {n}(IntEnum):\n    A = 1\n    B = 2\n", ["enum:int"]),
    ("class {n}(Enum):\n    A, B = 1, 2\n", ["enum:tuple_targets"]),
    ("class {n}(Enum):\n    \"\"\"Doc.\"\"\"\n", ["enum:empty"]),
    ("class {n}(enum.Enum):\n    A = enum.auto()\n    _ignore_ = ['x']\n", ["enum:auto"]),
    ("class {n}(NamedTuple):\n    x: int\n    y: str = 'a'\n\n    def total(self) -> int:\n        return self.x\n", ["namedtuple"]),
    ("class {n}(TypedDict, total=False):\n    k: int\n    v: 'list[str]'\n", ["typeddict"]),
    ("{n} = NamedTuple('{n}', [('a', int)])\n", ["namedtuple:functional"]),
    ("{n} = TypedDict('{n}', {{'a': int}})\n", ["typeddict:functional"]),
    ("{n} = Enum('{n}', 'A B C')\n", ["enum:functional"]),
    ("{n} = Union[int, str]\n{n}2 = list[{n}]\n{n}3: typing.TypeAlias = 'dict[str, Plain]'\n", ["type_alias"]),
    ("@overload\ndef {n}(x: int) -> int: ...\n@overload\ndef {n}(x: str) -> str: ...\ndef {n}(x):\n    return x\n", ["overload:module"]),
    ("def {n}(a: int) -> int:\n    \"\"\"Doc.\n\n    Parameters\n    ----------\n    a : int\n        x\n    \"\"\"\n    return a\n\n\ntry:\n    from fastlib_missing import {n}\nexcept ImportError:\n    pass\n", ["rebound_by_guarded_import"]),
    ("@overload\ndef {n}(x: int) -> int: ...\n@overload\ndef {n}(x: str) -> str: ...\n", ["overload:no_impl"]),
    ("if CONST_I:\n    def {n}(a):\n        return 1\nelse:\n    def {n}(a):\n        return 's'\n", ["conditional_def"]),
    ("try:\n    import numpy as _np\nexcept ImportError:\n    _np = None\n\ndef {n}(a: '_np.ndarray') -> None: ...\n", ["try_import"]),
    ("{n} = lambda a, b=1: a\n", ["lambda_assign"]),
    ("__all__ = ['Plain', 'helper']\n", ["dunder_all"]),
    ("{n}: int\n{n}_b: Final = 2\n{n}_c = {n}_d = []\n", ["module_vars"]),
    ("def {n}():\n    yield 1\n    return 's'\n", ["generator"]),
    ("async def {n}(a):\n    await a\n    async with a as b:\n        async for c in b:\n            return c\n", ["async"]),
    ("class {n}(Plain):\n    def meth(self) -> int:\n        return super().meth()\n\n    @classmethod\n    def make(cls) -> '{n}':\n        return cls()\n\n    def me(self) -> typing.Self:\n        return self\n", ["self_type"]),
    ("class {n}(Generic[TW, T_co]):\n    def get(self, d: TW | None = None) -> T_co: ...\n    def two(self, x: TB, y: TC) -> dict[TB, TC]: ...\n", ["generics"]),
    ("class {n}(Protocol):\n    def proto(self, x: int) -> str: ...\n    attr: int\n", ["protocol"]),
    ("class {n}(abc.ABC):\n    @abc.abstractmethod\n    def must(self) -> None: ...\n\n    @property\n    @abc.abstractmethod\n    def prop(self) -> int: ...\n", ["abc"]),
    ("class {n}(Exception):\n    def __init__(self, msg: str) -> None:\n        super().__init__(msg)\n        self.msg = msg\n", ["exception"]),
    ("def {n}(a, b):\n    def inner(c):\n        return a + c\n    return inner\n", ["closure"]),
    ("def {n}(a: int) -> int:\n    return a\n\n{n}.attribute = 1\n", ["function_attribute"]),
    ("TSelf_{n} = TypeVar(\"TSelf_{n}\")\n\n\nclass {n}:\n    def set(self: TSelf_{n}, x: int):\n        return self\n\n    def get(self: TSelf_{n}) -> TSelf_{n}:\n        return self\n", ["self_typevar"]),
    ("@dataclass(order=True)\nclass {n}:\n    \"\"\"Ordered.\"\"\"\n\n    x: int = 0\n    y: str = 'a'\n", ["dataclass_order"]),
    ("@dataclass\nclass {n}:\n    x: int\n    y: list[int] = dataclasses.field(default_factory=list)\n    z: ClassVar[int] = 0\n\n    def __post_init__(self) -> None:\n        self.w = self.x\n", ["dataclass"]),
    ("class {n}:\n    class Meta:\n        ordering = ['x']\n\n    def __init__(self):\n        class InInit:\n            pass\n        self.k = InInit()\n", ["nested_in_init"]),
    ("class {n}(Plain):\n    attr_p = 2\n    attr_p: int\n", ["attr_redefinition"]),
    ("def {n}(a=Plain.attr_p, b=Plain().meth(), c=math.pi, d=-CONST_I, e=not CONST_I, f=(1, 2), g=[1], h={{'a': 1}}, i=lambda: 0, j=..., k=1 if CONST_I else 2, l=b'x', m=2j, n=CONST_S + 'x'):\n    pass\n", ["default_kinds"]),
]


@st.composite
def module_chunks(draw: Any, modname: str) -> list[dict]:
    chunks: list[dict] = []
    n = draw(st.integers(2, 7))
    for i in range(n):
        kind = draw(st.sampled_from(["func", "func", "class", "class", "special"]))
        if kind == "func":
            name = draw(st.sampled_from(["fn", "_fn", "__fn", "fn_snake_case", "fnCamel", "Fn"])) + f"_{modname}_{i}"
            decos = draw(st.sampled_from([[], [], [], ["deco"], ["deco_args(3)"], ["functools.lru_cache"], ["typing.no_type_check"]]))
            src = "\n".join(draw(function_chunk(name, "", None, decos)))
            chunks.append({"src": src, "tags": ["func"]})
        elif kind == "class":
            name = draw(st.sampled_from(["Cls", "_Cls", "cls_snake", "ClsCamel"])) + f"_{modname}_{i}"
            src = "\n".join(draw(class_chunk(name)))
            chunks.append({"src": src, "tags": ["class"]})
        else:
            tmpl, tags = draw(st.sampled_from(SPECIAL_CHUNKS))
            chunks.append({"src": tmpl.format(n=f"Sp_{modname}_{i}"), "tags": tags})
    return chunks


OPTION_ROWS = [
    {"docstyle": s, "nc": nc, "tsp": tsp, "tsw": tsw, "testrun": tr}
    for s in ["PLAINTEXT", "GOOGLE", "NUMPYDOC", "REST"]
    for nc in (False, True)
    for tsp in ("CODE", "DOCSTRING")
    for tsw in ("WARN", "IGNORE")
    for tr in (False, True)
]


@st.composite
def wild_case(draw: Any, pkgname: str) -> dict:
    layout = draw(st.sampled_from(["flat", "flat", "nested", "deep", "tests_dir", "samename"]))
    paths: list[list[str]] = [[pkgname, "mod_a"]]
    if layout in {"nested", "deep"}:
        paths.append([pkgname, "sub", "mod_b"])
        paths.append([pkgname, "_internal", "_impl"])
    if layout == "deep":
        paths.append([pkgname, "sub", "deeper", "lvl3", "mod_c"])
    if layout == "tests_dir":
        paths.append([pkgname, "tests", "test_x"])
        paths.append([pkgname, "docs", "conf"])
    if layout == "samename":
        paths.append([pkgname, "utils", "utils"])
    if draw(st.booleans()):
        paths.append([pkgname, "mod_z"])
    modules = []
    for p in paths:
        modules.append({"path": p, "chunks": draw(module_chunks(p[-1]))})
    # cross-module references (every module defines Plain / _Hidden / GenBox / helper of its own: name collisions galore)
    for i, m in enumerate(modules):
        if i == 0 or not draw(st.booleans()):
            continue
        other = ".".join(modules[draw(st.integers(0, i - 1))]["path"])
        form = draw(st.sampled_from(["from_alias", "module_alias", "from_plain", "relative_star", "type_checking"]))
        n = f"X_{m['path'][-1]}_{i}"
        if form == "from_alias":
            src = f"from {other} import Plain as PlainO, helper as helper_o, GenBox as GenBoxO\n\n\nclass {n}(PlainO):\n    box: GenBoxO[PlainO]\n\n    def use(self, a: PlainO, b: GenBoxO[int] = None) -> 'PlainO':\n        return helper_o(a)\n"
        elif form == "module_alias":
            src = f"import {other} as other_mod\n\n\nclass {n}(other_mod.Plain, other_mod._Hidden):\n    def use(self, a: other_mod.Plain) -> other_mod.GenBox[other_mod.Plain]:\n        return other_mod.helper(a)\n"
        elif form == "from_plain":
            src = f"from {other} import _Hidden as HiddenO\n\n\nclass {n}(HiddenO):\n    pass\n\n\ndef fn_{n}(h: HiddenO) -> list[HiddenO]:\n    return [h]\n"
        elif form == "relative_star":
            rel = "." * (len(m["path"]) - 1) + ".".join(other.split(".")[1:])
            src = f"from {rel} import *\n\n\ndef fn_{n}(p: Plain) -> Plain:\n    return p\n"
        else:
            src = f"if TYPE_CHECKING:\n    from {other} import Plain as PlainT\n\n\ndef fn_{n}(p: 'PlainT') -> 'list[PlainT]':\n    return [p]\n"
        m["chunks"].append({"src": src, "tags": [f"crossref:{form}"]})
    inits: dict[str, list[str]] = {}
    if draw(st.booleans()):
        lines = []
        for p in paths[:3]:
            rel = "." + ".".join(p[1:])
            form = draw(st.sampled_from(["from_star", "from_mod", "abs_mod", "alias", "none"]))
            if form == "from_star":
                lines.append(f"from {rel} import *")
            elif form == "from_mod":
                lines.append(f"from {'.' + '.'.join(p[1:-1]) if len(p) > 2 else '.'} import {p[-1]}")
            elif form == "abs_mod":
                lines.append(f"import {'.'.join(p)}")
            elif form == "alias":
                lines.append(f"from {rel} import Plain as Plain_{p[-1]}, helper")
        lines.append("__all__ = ['helper']")
        lines.append("def in_init(a):\n    return a\n")
        inits[pkgname] = lines
    opts = draw(st.sampled_from(OPTION_ROWS))
    return {"pkgname": pkgname, "modules": modules, "inits": inits, "options": opts}


def render_case(case: dict) -> dict[str, str]:
    files: dict[str, str] = {}
    dirs: set[tuple[str, ...]] = set()
    for m in case["modules"]:
        files["/".join(m["path"]) + ".py"] = PRELUDE + "\n\n" + "\n\n\n".join(c["src"] for c in m["chunks"]) + "\n"
        for i in range(1, len(m["path"])):
            dirs.add(tuple(m["path"][:i]))
    for d in sorted(dirs):
        key = "/".join(d)
        files[key + "/__init__.py"] = "\n".join(case.get("inits", {}).get(key, [])) + "\n"
    return files
