#!/venv/bin/python
"""Coverage-guided fuzz targets (atheris / libFuzzer) for the two pure-function properties.

usage: python vf/fuzz.py c19|c09 <artifact dir> [libFuzzer flags...]
The semantic oracle runs inside the target; an unknown discrepancy is written to <artifact dir>/finding.json and the
process aborts (libFuzzer also saves the raw input). Known findings (known_findings.json) are skipped so that the
campaign continues behind them.
"""

from __future__ import annotations

import json
import os
import sys
from pathlib import Path

HERE = Path(__file__).resolve().parent.parent
sys.path.insert(0, str(HERE))
sys.path.insert(0, str(HERE / ".deps"))

import atheris  # noqa: E402

with atheris.instrument_imports(include=["safeds_stubgen"]):
    import safeds_stubgen.api_analyzer._types  # noqa: F401
    import safeds_stubgen.stubs_generator._helper  # noqa: F401

from vf.common import Known  # noqa: E402

TARGET = sys.argv[1]
ART = Path(sys.argv[2])
ART.mkdir(parents=True, exist_ok=True)
STATS = {"execs": 0, "nontrivial": 0, "known": 0}


def _flush() -> None:
    # atheris.Fuzz() never returns and atexit handlers do not run: persist the counters from inside the target
    if STATS["execs"] % 2000 == 0:
        (ART / "stats.json").write_text(json.dumps(STATS))


def report(d: dict, payload: dict) -> None:
    (ART / "finding.json").write_text(json.dumps({"discrepancy": d, **payload}, default=str))
    (ART / "stats.json").write_text(json.dumps(STATS))
    raise RuntimeError(f"FUZZ-DISCREPANCY {d['kind']} {d['element'][:200]}")


def c19_target(data: bytes) -> None:
    from vf.props import c19

    fdp = atheris.FuzzedDataProvider(data)

    def leaf() -> list:
        k = fdp.ConsumeIntInRange(0, 5)
        if k == 0:
            return ["Unknown"]
        if k == 1:
            return ["Named", fdp.PickValueInList(["int", "A", "B_c", ""]), fdp.PickValueInList(["builtins.int", "p.m.A", ""])]
        if k == 2:
            return ["Enum", sorted({fdp.PickValueInList(["a", "b", "c'", ""]) for _ in range(fdp.ConsumeIntInRange(0, 3))}), fdp.PickValueInList(["", "{x}"])]
        if k == 3:
            lo = fdp.PickValueInList([0, -1, 1.5, "NegativeInfinity"])
            hi = fdp.PickValueInList([1, 2.5, "Infinity", 0])
            return ["Boundary", fdp.PickValueInList(["int", "float"]), lo, hi, fdp.ConsumeBool(), fdp.ConsumeBool(), fdp.PickValueInList(["", "m"])]
        if k == 4:
            return ["Literal", [fdp.PickValueInList(["a", "", 0, 1, True, False, None, 1.5, -2]) for _ in range(fdp.ConsumeIntInRange(0, 3))]]
        return ["TypeVar", fdp.PickValueInList(["T", "U"]), None]

    def term(depth: int) -> list:
        if depth <= 0 or fdp.remaining_bytes() < 2 or fdp.ConsumeIntInRange(0, 3) == 0:
            return leaf()
        k = fdp.ConsumeIntInRange(0, 8)
        kids = lambda: [term(depth - 1) for _ in range(fdp.ConsumeIntInRange(0, 3))]  # noqa: E731
        if k == 0:
            return ["NamedSeq", fdp.PickValueInList(["Box", "A"]), fdp.PickValueInList(["p.m.Box", ""]), kids()]
        if k in (1, 2, 3, 4):
            return [["Union", "List", "Set", "Tuple"][k - 1], kids()]
        if k == 5:
            return ["Dict", term(depth - 1), term(depth - 1)]
        if k == 6:
            return ["Callable", kids(), term(depth - 1)]
        if k == 7:
            return ["Final", term(depth - 1)]
        return ["TypeVar", fdp.PickValueInList(["T", "U"]), term(depth - 1)]

    a = term(4)
    STATS["execs"] += 1
    _flush()
    if c19.depth(a) >= 2:
        STATS["nontrivial"] += 1
    ds = list(c19.check_term(a))
    for name, v in c19.variants(a):
        ds += c19.check_pair(a, v, name)[0]
    if fdp.remaining_bytes() > 2:
        b = term(3)
        ds += c19.check_pair(a, b, "independent")[0]
    for d in ds:
        if KNOWN.match(d):
            STATS["known"] += 1
            continue
        pair = d["kind"] in {"eq_raises", "eq_not_symmetric", "equal_but_hash_differs"}
        report(d, {"spec": json.loads(d["element"]), "pair": pair})


def c09_target(data: bytes) -> None:
    from vf.props import c09

    fdp = atheris.FuzzedDataProvider(data)
    n = fdp.ConsumeIntInRange(1, 40)
    alphabet = "abcxyzABCXYZ0189_____"
    name = "".join(alphabet[fdp.ConsumeIntInRange(0, len(alphabet) - 1)] for _ in range(n))
    if not name.isidentifier():
        return
    STATS["execs"] += 1
    _flush()
    if "_" in name.strip("_") or name != name.strip("_"):
        STATS["nontrivial"] += 1
    for d in c09.check_name(name):
        if KNOWN.match(d):
            STATS["known"] += 1
            continue
        report(d, {"case": {"name": name}})


KNOWN = Known({"c19": "C19", "c09": "C09"}[TARGET])


def main() -> None:
    target = {"c19": c19_target, "c09": c09_target}[TARGET]
    argv = [sys.argv[0], *sys.argv[3:]]
    atheris.Setup(argv, target)
    try:
        atheris.Fuzz()
    finally:
        (ART / "stats.json").write_text(json.dumps(STATS))


if __name__ == "__main__":
    os.environ.setdefault("PYTHONHASHSEED", "0")
    main()
