"""Index over the parsed stub set of one run."""

from __future__ import annotations

from typing import Any

from vf import sdsparse


class StubSet:
    def __init__(self, stubs: dict[str, str]) -> None:
        self.texts = stubs
        self.files: dict[str, sdsparse.StubFile] = {}
        self.errors: dict[str, sdsparse.SdsSyntaxError] = {}
        for rel, text in stubs.items():
            try:
                self.files[rel] = sdsparse.parse(text)
            except sdsparse.SdsSyntaxError as e:
                self.errors[rel] = e
        # python-name chain -> [(rel, Decl)]
        self.by_chain: dict[tuple[str, ...], list[tuple[str, sdsparse.Decl]]] = {}
        for rel, sf in self.files.items():
            for owner, d in sf.walk():
                self.by_chain.setdefault((*owner, d.python_name), []).append((rel, d))

    def find(self, *chain: str, kind: str | None = None) -> list[tuple[str, sdsparse.Decl]]:
        hits = self.by_chain.get(tuple(chain), [])
        if kind is not None:
            hits = [h for h in hits if h[1].kind == kind]
        return hits

    def one(self, *chain: str, kind: str | None = None) -> tuple[str, sdsparse.Decl] | None:
        hits = self.find(*chain, kind=kind)
        return hits[0] if len(hits) == 1 else None


def api_index(api: dict | None) -> dict[str, dict[str, Any]]:
    """id -> entry for each top-level list of the API JSON."""
    out: dict[str, dict[str, Any]] = {}
    if not api:
        return out
    for key in ("modules", "classes", "functions", "results", "enums", "enum_instances", "attributes", "parameters"):
        out[key] = {e["id"]: e for e in api.get(key, []) if isinstance(e, dict) and "id" in e}
    return out
