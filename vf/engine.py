"""Search engine shared by the package-based checks: sharded Hypothesis runs in worker processes,
deterministic case batches, collection + bucketing of discrepancies, parallel structural delta debugging, replay.

A property module `vf.props.cXX` provides
    strategy(args) -> hypothesis strategy producing a *case* (JSON-able dict, normally {"pkg": GT, "options": {...}})
    judge(case) -> {"discs": [Discrepancy...], "nontrivial": [key...], "evals": int, "stats": [label...], "sample": obj|None}
"""

from __future__ import annotations

import copy
import importlib
from pathlib import Path
import json
import multiprocessing as mp
import os
import time
import traceback
from collections import Counter
from typing import Any

from vf.common import Ctx, Discrepancy, HarnessError, Known, derive_seed, sha1_of, trunc

CTX_MP = mp.get_context("fork")


def _mod(modname: str):  # noqa: ANN202
    return importlib.import_module(f"vf.props.{modname}")


def new_result() -> dict:
    return {"evals": 0, "cases": 0, "nontrivial": [], "stats": Counter(), "samples": [], "failures": [], "known_hits": Counter(), "harness_errors": [], "timeouts": 0}


def _absorb(res: dict, j: dict, case: dict, known: Known) -> list[dict]:
    res["cases"] += 1
    res["evals"] += j.get("evals", 1)
    res["nontrivial"].extend(j.get("nontrivial", []))
    for s in j.get("stats", []):
        res["stats"][s] += 1
    if j.get("sample") is not None and len(res["samples"]) < 2:
        res["samples"].append(j["sample"])
    new, _kn = known.split(j.get("discs", []))
    return new


def hypothesis_shard(payload: tuple) -> dict:
    """Runs in a worker process: one Hypothesis test with its own derived seed."""
    modname, args = payload
    res = new_result()
    try:
        import hypothesis
        from hypothesis import HealthCheck, Phase, given, settings

        mod = _mod(modname)
        known = Known(args["prop"])
        strat = mod.strategy(args)
        phases = [Phase.generate] + ([Phase.shrink] if args.get("shrink") else [])
        box: dict[str, Any] = {}

        @hypothesis.seed(derive_seed(args["prop"], args["seed"], args["shard"]))
        @settings(
            max_examples=args["examples"], database=None, deadline=None, derandomize=False, report_multiple_bugs=False,
            phases=phases, suppress_health_check=list(HealthCheck), print_blob=False,
        )  # fmt: skip
        @given(strat)
        def prop(case: dict) -> None:
            j = mod.judge(case)
            new = _absorb(res, j, case, known)
            if new and args.get("collect_all"):
                # collect-then-shrink: keep searching behind a failure (one representative per bucket is kept)
                key = (new[0]["kind"], new[0].get("bucket", ""), tuple(new[0].get("tags", [])) if not new[0].get("bucket") else ())
                if key not in box.setdefault("seen", set()) and len(res["failures"]) < 12:
                    box["seen"].add(key)
                    res["failures"].append({"discs": new[:20], "case": case})
            elif new:
                box["last"] = (new, case)
                raise AssertionError(f"{len(new)} new discrepancies: {new[0]['kind']}")

        try:
            prop()
        except BaseException as e:  # noqa: BLE001
            # AssertionError from the property, or Hypothesis' FlakyFailure group when the failing example does not
            # fail again on the confirmation run (which, for a nondeterminism property, is the finding itself)
            if isinstance(e, (KeyboardInterrupt, SystemExit)) or "last" not in box:
                raise
            new, case = box["last"]
            if not isinstance(e, AssertionError):
                for d in new:
                    d["detail"] = str(d.get("detail", "")) + " [did not recur when Hypothesis re-ran the example: outcome varies between runs]"
            res["failures"].append({"discs": new[:20], "case": case})
        res["known_hits"] = known.hits
    except HarnessError as e:
        res["harness_errors"].append(f"{e}")
    except Exception as e:  # noqa: BLE001
        res["harness_errors"].append(f"{type(e).__name__}: {e}\n{traceback.format_exc()[-1500:]}")
    res["stats"] = dict(res["stats"])
    res["known_hits"] = dict(res["known_hits"])
    return res


def cases_shard(payload: tuple) -> dict:
    """Runs in a worker process: judge a list of explicit cases (deterministic enumerations, replays)."""
    modname, args = payload
    res = new_result()
    try:
        mod = _mod(modname)
        known = Known(args["prop"])
        for case in args["cases"]:
            j = mod.judge(case)
            new = _absorb(res, j, case, known)
            if new:
                res["failures"].append({"discs": new[:20], "case": case})
        res["known_hits"] = known.hits
    except HarnessError as e:
        res["harness_errors"].append(f"{e}")
    except Exception as e:  # noqa: BLE001
        res["harness_errors"].append(f"{type(e).__name__}: {e}\n{traceback.format_exc()[-1500:]}")
    res["stats"] = dict(res["stats"])
    res["known_hits"] = dict(res["known_hits"])
    return res


def judge_one(payload: tuple) -> dict:
    modname, case = payload
    try:
        return _mod(modname).judge(case)
    except Exception as e:  # noqa: BLE001
        return {"discs": [], "harness_error": f"{type(e).__name__}: {e}"}


def run_pool(ctx: Ctx, fn: Any, payloads: list, timeout_s: float = 1500.0) -> list[dict]:
    """Each payload runs in a fresh forked process (bounded memory: mypy leaks ~25 MB per in-process build)."""
    if not payloads:
        return []
    results: list[dict] = []
    with CTX_MP.Pool(processes=min(ctx.workers, len(payloads)), maxtasksperchild=1) as pool:
        asyncs = [pool.apply_async(fn, (p,)) for p in payloads]
        deadline = time.time() + timeout_s
        for a in asyncs:
            try:
                results.append(a.get(timeout=max(1.0, deadline - time.time())))
            except mp.TimeoutError:
                r = new_result()
                r["timeouts"] = 1
                r["stats"] = {}
                r["known_hits"] = {}
                results.append(r)
        pool.terminate()
    return results


def merge(ctx: Ctx, results: list[dict]) -> list[dict]:
    failures = []
    for r in results:
        ctx.evaluations += r["evals"]
        ctx.stats["cases"] += r["cases"]
        for k in r["nontrivial"]:
            ctx.note_nontrivial(k)
        for k, v in r["stats"].items():
            ctx.stats[k] += v
        for k, v in r["known_hits"].items():
            ctx.known.hits[k] += v
        for s in r["samples"]:
            ctx.add_sample(s)
        if r.get("timeouts"):
            ctx.stats["shard_timeouts(inconclusive)"] += r["timeouts"]
        if r["harness_errors"]:
            raise HarnessError("worker: " + r["harness_errors"][0])
        failures.extend(r["failures"])
    return failures


def search(ctx: Ctx, modname: str, shards: int, examples: int, extra: dict | None = None, timeout_s: float = 1500.0) -> list[dict]:
    payloads = []
    for s in range(shards):
        args = {"prop": ctx.prop, "seed": ctx.seed, "shard": s, "examples": examples, "tier": ctx.tier, "shrink": ctx.tier == "thorough"}
        args.update(extra or {})
        payloads.append((modname, args))
    return merge(ctx, run_pool(ctx, hypothesis_shard, payloads, timeout_s))


def run_cases(ctx: Ctx, modname: str, cases: list[dict], chunk: int = 1, timeout_s: float = 1500.0) -> list[dict]:
    payloads = []
    for i in range(0, len(cases), chunk):
        payloads.append((modname, {"prop": ctx.prop, "cases": cases[i : i + chunk]}))
    return merge(ctx, run_pool(ctx, cases_shard, payloads, timeout_s))


# ---- structural delta debugging on the ground-truth model ---------------------------------------------
def _paths_to_lists(obj: Any, path: tuple = ()) -> list[tuple]:
    """Paths of all non-empty lists of dicts (decl lists, member lists, params, modules) inside a GT."""
    out = []
    if isinstance(obj, dict):
        for k, v in obj.items():
            out += _paths_to_lists(v, (*path, k))
    elif isinstance(obj, list):
        if obj and all(isinstance(x, dict) for x in obj):
            out.append(path)
        for i, v in enumerate(obj):
            if isinstance(v, (dict, list)):
                out += _paths_to_lists(v, (*path, i))
    return out


def _get(obj: Any, path: tuple) -> Any:
    for p in path:
        obj = obj[p]
    return obj


def candidates(case: dict) -> list[dict]:
    """One-step reductions: drop one element of any list of dicts (modules, decls, members, params, ...)."""
    out = []
    for path in _paths_to_lists(case):
        lst = _get(case, path)
        # drop halves first for long lists
        if len(lst) >= 4:
            for lo, hi in ((0, len(lst) // 2), (len(lst) // 2, len(lst))):
                c = copy.deepcopy(case)
                del _get(c, path)[lo:hi]
                out.append(c)
        for i in range(len(lst)):
            c = copy.deepcopy(case)
            del _get(c, path)[i]
            out.append(c)
    # drop optional dict entries that are themselves declarations (ctor) or docs
    def opt(obj: Any, path: tuple = ()) -> None:
        if isinstance(obj, dict):
            for k, v in obj.items():
                if k in {"ctor", "doc", "body"} and v is not None:
                    c = copy.deepcopy(case)
                    _get(c, path)[k] = None
                    out.append(c)
                opt(v, (*path, k))
        elif isinstance(obj, list):
            for i, v in enumerate(obj):
                opt(v, (*path, i))

    opt(case)
    return out


def minimize(ctx: Ctx, modname: str, case: dict, disc: dict, max_rounds: int = 40, valid: Any = None) -> tuple[dict, dict]:
    """Parallel greedy ddmin: in each round all one-step reductions are judged concurrently; the smallest that still
    shows a discrepancy of the same kind (and same tag set) is taken."""
    kind = disc["kind"]

    def still(j: dict) -> dict | None:
        if j.get("harness_error"):
            return None
        for d in j.get("discs", []):
            if d["kind"] == kind and d.get("bucket", "") == disc.get("bucket", "") and not ctx.known.match(d):
                return d
        return None

    cur, cur_disc = case, disc
    if not hasattr(ctx, "_min_deadline"):
        ctx._min_deadline = time.time() + (75 if ctx.tier == "quick" else 900)  # type: ignore[attr-defined]
    t_end = min(time.time() + (45 if ctx.tier == "quick" else 300), ctx._min_deadline)  # type: ignore[attr-defined]
    for _ in range(max_rounds):
        if time.time() > t_end:
            break
        cand_fn = getattr(_mod(modname), "candidates", candidates)
        cands = [c for c in cand_fn(cur) if (valid is None or valid(c))]
        if not cands:
            break
        cands.sort(key=lambda c: len(json.dumps(c, default=str)))
        cands = cands[: 4 * ctx.workers]
        with CTX_MP.Pool(processes=min(ctx.workers, len(cands)), maxtasksperchild=1) as pool:
            js = pool.map(judge_one, [(modname, c) for c in cands])
        for c, j in zip(cands, js):
            d = still(j)
            if d is not None:
                cur, cur_disc = c, d
                break
        else:
            break
    return cur, cur_disc


def report_failures(ctx: Ctx, modname: str, failures: list[dict], valid: Any = None, max_reports: int = 6) -> None:
    """Bucket new discrepancies by (kind, tags), minimise one representative per bucket, emit VIOLATION lines."""
    buckets: dict[tuple, tuple[dict, dict]] = {}
    for f in failures:
        for d in f["discs"]:
            key = (d["kind"], tuple(d.get("tags", [])), d.get("bucket", ""))
            size = len(json.dumps(f["case"], default=str))
            if key not in buckets or size < len(json.dumps(buckets[key][1], default=str)):
                buckets[key] = (d, f["case"])
    ctx.extra["new_discrepancy_buckets"] = len(buckets)
    seen: set = set()
    for key in sorted(buckets, key=lambda k: str(k))[:max_reports]:
        d, case = buckets[key]
        try:
            small, d2 = minimize(ctx, modname, case, d, valid=valid)
        except Exception as e:  # noqa: BLE001 - minimisation is best effort
            small, d2 = case, d
            print(f"(minimisation failed: {e})")
        sig = (d2["kind"], d2["element"], trunc(d2["detail"], 200))
        if sig in seen:
            continue
        seen.add(sig)
        ctx.violation(d2, {"case": small})


# ---- coverage-guided campaigns (atheris / libFuzzer) ----------------------------------------------------------
def run_atheris(ctx: Ctx, target: str, runs: int, shards: int, max_len: int) -> None:
    """Runs vf/fuzz.py <target> in `shards` subprocesses (libFuzzer seeds derived from VERIF_SEED). An unknown discrepancy
    found by a campaign becomes a VIOLATION with the decoded input as replay; counters go to the evidence."""
    import shutil
    import subprocess
    import sys
    import tempfile

    from vf.common import VERIF

    if not (VERIF / ".deps" / "atheris").exists():
        ctx.extra["atheris"] = "not installed (MANIFEST.setup_cmd installs it into /verif/.deps): campaign skipped"
        return
    base = Path(tempfile.mkdtemp(prefix="vffuzz_"))
    procs = []
    for i in range(shards):
        art = base / f"art{i}"
        corpus = base / f"corpus{i}"
        corpus.mkdir(parents=True)
        seed = derive_seed(ctx.prop, "atheris", ctx.seed, i) % (2**31 - 1) + 1
        env = dict(os.environ, PYTHONPATH=os.pathsep.join([str(VERIF), str(VERIF / ".deps"), os.environ.get("PYTHONPATH", "")]))
        procs.append((art, subprocess.Popen([sys.executable, str(VERIF / "vf" / "fuzz.py"), target, str(art), f"-runs={runs}", f"-seed={seed}", f"-max_len={max_len}", f"-artifact_prefix={art}/", str(corpus)], stdout=subprocess.DEVNULL, stderr=subprocess.DEVNULL, env=env)))
    execs = nontrivial = 0
    try:
        for art, p in procs:
            try:
                p.wait(timeout=3600)
            except subprocess.TimeoutExpired:
                p.kill()
                ctx.stats["atheris_timeouts(inconclusive)"] += 1
            st_file = art / "stats.json"
            if st_file.exists():
                st_ = json.loads(st_file.read_text())
                execs += st_["execs"]
                nontrivial += st_["nontrivial"]
                ctx.known.hits["(atheris, known findings skipped)"] += st_.get("known", 0)
            f = art / "finding.json"
            if f.exists():
                payload = json.loads(f.read_text())
                d = payload.pop("discrepancy")
                ctx.violation(d, payload)
    finally:
        shutil.rmtree(base, ignore_errors=True)
    ctx.evaluations += execs
    ctx.nontrivial_extra += 0
    ctx.extra["atheris"] = {"target": target, "shards": shards, "runs_per_shard": runs, "executions": execs, "nontrivial_executions": nontrivial}


# ---- replay -------------------------------------------------------------------------------------------
def load_case(path: str) -> dict:
    from vf.common import VERIF
    from pathlib import Path

    p = Path(path)
    if not p.is_absolute():
        p = VERIF / path
    payload = json.loads(p.read_text())
    return payload.get("case", payload)


def replay_known(ctx: Ctx, modname: str) -> None:
    """Open findings must still fail in the recorded way (else a note); fixed findings must pass (else VIOLATION)."""
    entries = [e for e in ctx.known.entries if e.get("replay")]
    if not entries:
        return
    cases = [load_case(e["replay"]) for e in entries]
    with CTX_MP.Pool(processes=min(ctx.workers, len(cases)), maxtasksperchild=1) as pool:
        js = pool.map(judge_one, [(modname, c) for c in cases])
    for e, c, j in zip(entries, cases, js):
        if j.get("harness_error"):
            raise HarnessError(f"replay {e['replay']}: {j['harness_error']}")
        ctx.evaluations += j.get("evals", 1)
        ctx.stats["replays"] += 1
        discs = j.get("discs", [])
        same = [d for d in discs if d["kind"] == e.get("kind")]
        if e["status"] == "open":
            ctx.known_finding(e, "" if same else "recorded input no longer fails")
            other = [d for d in discs if not ctx.known.match(d)]
            for d in other[:1]:
                ctx.violation(d, {"case": c, "note": f"replay of {e['id']} shows a different, unlisted discrepancy"})
        elif e["status"] == "fixed":
            bad = [d for d in discs if not ctx.known.match(d)]
            if bad:
                ctx.violation(bad[0], {"case": c, "regressed": e["id"]})


def replay_cli(ctx: Ctx, modname: str, path: str) -> int:
    case = load_case(path)
    j = _mod(modname).judge(case)
    if j.get("harness_error"):
        print("HARNESS-ERROR:", j["harness_error"])
        return 2
    new, kn = ctx.known.split(j.get("discs", []))
    for d in kn:
        print(f"(known) kind={d['kind']} element={d['element']} detail={trunc(d['detail'])}")
    for d in new:
        print(f"VIOLATION property={ctx.prop} replay={path}")
        print(f"  kind={d['kind']} element={d['element']} detail={trunc(d['detail'], 600)}")
    if not new:
        print("replay: no unlisted discrepancy")
    return 1 if new else 0


_ = (os, sha1_of, Discrepancy)
