"""Ground-truth model of a generated Python package (plain JSON-able dicts) and its renderer to source files.

Package  {"name", "modules": [Module], "inits": {"pkg/sub": [ReExport]}, "init_docs": {...}, "extra": {rel: src}}
Module   {"path": [seg...], "doc": str|None, "decls": [Func|Class|Enum], "pre": [src line...], "tags": []}
Func     {"t": "func", "name", "kind": function|method|static|classmethod|property, "recv": str|None,
          "params": [Param], "ret": T|None, "body": [src line...]|None, "doc": str|None (already rendered docstring),
          "deco": [src], "tags": []}
Param    {"name", "kind": posonly|pos|vararg|kwonly|kwarg, "ann": T|None, "default": D|None}
Class    {"t": "class", "name", "bases": [Ref], "tparams": [{"name","variance","bound": T|None,"values":[T]}],
          "doc", "ctor": Func|None, "members": [Attr|Func|Class], "tags": []}
Attr     {"t": "attr", "name", "ann": T|None, "value": src|None, "tags": []}        (class body)
          init attributes live in ctor["init_attrs"]: [{"name","ann","value"}]
Enum     {"t": "enum", "name", "variants": [name...], "doc", "base": "Enum"|"IntEnum"}
Ref      ["cls", "pkg.mod:Outer.Inner"] | ["ext", "module.path", "Name"]
T (type term): see ref.py
D (default):  ["int", src] | ["float", src] | ["str", value] | ["bool", v] | ["none"] | ["expr", src]
ReExport ["from", module(str, relative or absolute), name, alias|None] | ["star", module] | ["module", frm, name, alias]
"""

from __future__ import annotations

from typing import Any, Iterator

from vf import ref

IND = "    "


# ---- constructors ---------------------------------------------------------------------------------
def func(name: str, params: list | None = None, ret: Any = None, kind: str = "function", recv: str | None = None, **kw: Any) -> dict:
    if kind in {"method", "property"} and recv is None:
        recv = "self"
    if kind == "classmethod" and recv is None:
        recv = "cls"
    return {"t": "func", "name": name, "kind": kind, "recv": recv, "params": params or [], "ret": ret, "body": kw.pop("body", None), "doc": kw.pop("doc", None), "deco": kw.pop("deco", []), "tags": kw.pop("tags", []), **kw}


def param(name: str, kind: str = "pos", ann: Any = None, default: Any = None) -> dict:
    return {"name": name, "kind": kind, "ann": ann, "default": default}


def klass(name: str, members: list | None = None, bases: list | None = None, ctor: dict | None = None, **kw: Any) -> dict:
    return {"t": "class", "name": name, "bases": bases or [], "tparams": kw.pop("tparams", []), "doc": kw.pop("doc", None), "ctor": ctor, "members": members or [], "tags": kw.pop("tags", []), **kw}


def attr(name: str, ann: Any = None, value: str | None = None, **kw: Any) -> dict:
    return {"t": "attr", "name": name, "ann": ann, "value": value, "tags": kw.pop("tags", []), **kw}


def enum(name: str, variants: list[str], **kw: Any) -> dict:
    return {"t": "enum", "name": name, "variants": variants, "doc": kw.pop("doc", None), "base": kw.pop("base", "Enum"), "tags": kw.pop("tags", []), **kw}


def module(path: list[str], decls: list | None = None, **kw: Any) -> dict:
    return {"path": list(path), "doc": kw.pop("doc", None), "decls": decls or [], "pre": kw.pop("pre", []), "tags": kw.pop("tags", []), **kw}


def package(name: str, modules: list, inits: dict | None = None, **kw: Any) -> dict:
    return {"name": name, "modules": modules, "inits": inits or {}, "init_docs": kw.pop("init_docs", {}), "extra": kw.pop("extra", {}), **kw}


# ---- traversal ------------------------------------------------------------------------------------
def walk_decls(decls: list, owner: tuple[str, ...] = ()) -> Iterator[tuple[tuple[str, ...], dict]]:
    for d in decls:
        yield owner, d
        if d["t"] == "class":
            if d.get("ctor"):
                yield (*owner, d["name"]), d["ctor"]
            yield from walk_decls(d["members"], (*owner, d["name"]))


def walk_package(pkg: dict) -> Iterator[tuple[dict, tuple[str, ...], dict]]:
    for m in pkg["modules"]:
        for owner, d in walk_decls(m["decls"]):
            yield m, owner, d


def mod_qname(m: dict) -> str:
    return ".".join(m["path"])


def all_type_terms(d: dict) -> Iterator[Any]:
    if d["t"] == "func":
        for p in d["params"]:
            if p["ann"] is not None:
                yield p["ann"]
        if d["ret"] is not None:
            yield d["ret"]
        for a in d.get("init_attrs", []):
            if a.get("ann") is not None:
                yield a["ann"]
    elif d["t"] == "attr":
        if d["ann"] is not None:
            yield d["ann"]
    elif d["t"] == "class":
        for tp in d["tparams"]:
            if tp.get("bound") is not None:
                yield tp["bound"]
            yield from tp.get("values", [])


# ---- rendering ------------------------------------------------------------------------------------
def render_default(d: list) -> str:
    k = d[0]
    if k in {"int", "float", "expr"}:
        return d[1]
    if k == "str":
        return repr(d[1])
    if k == "bool":
        return "True" if d[1] else "False"
    if k == "none":
        return "None"
    raise ValueError(d)


def render_params(f: dict, imports: ref.Imports, here: str) -> str:
    parts: list[str] = []
    if f["kind"] in {"method", "property", "classmethod"} and f.get("recv"):
        parts.append(f["recv"])
    params = f["params"]
    kinds = [p["kind"] for p in params]
    for i, p in enumerate(params):
        s = p["name"]
        if p["kind"] == "vararg":
            s = "*" + s
        elif p["kind"] == "kwarg":
            s = "**" + s
        elif p["kind"] == "kwonly" and "vararg" not in kinds and (i == 0 or kinds[i - 1] != "kwonly"):
            parts.append("*")
        if p["ann"] is not None:
            s += ": " + ref.render_py(p["ann"], imports, here)
            if p["default"] is not None:
                s += " = " + render_default(p["default"])
        elif p["default"] is not None:
            s += "=" + render_default(p["default"])
        parts.append(s)
        if p["kind"] == "posonly" and (i + 1 == len(params) or kinds[i + 1] != "posonly"):
            parts.append("/")
    # a receiver before '/' is position-only too; python accepts 'self, a, /'
    return ", ".join(parts)


def render_doc(doc: str | None, indent: str) -> list[str]:
    if doc is None:
        return []
    lines = doc.split("\n")
    q = '"""'
    body = doc.replace("\\", "\\\\").replace('"""', '\\"\\"\\"')
    if body.endswith('"'):
        body = body[:-1] + '\\"'
    lines = body.split("\n")
    if len(lines) == 1:
        return [f"{indent}{q}{lines[0]}{q}"]
    out = [f"{indent}{q}{lines[0]}"]
    for ln in lines[1:]:
        out.append(f"{indent}{ln}" if ln.strip() else "")
    out.append(f"{indent}{q}")
    return out


def render_func(f: dict, indent: str, imports: ref.Imports, here: str) -> list[str]:
    out: list[str] = []
    # f["overloads"] = n: n '@overload' signatures in front of the (possibly decorated) implementation; signature i
    # annotates the first parameter with int / str / float in turn
    for i in range(f.get("overloads", 0)):
        imports.add("typing", "overload")
        sig = dict(f)
        if f["params"]:
            first = dict(f["params"][0], ann=[["int"], ["str"], ["float"]][i % 3], default=None if f["params"][0]["default"] is None else f["params"][0]["default"])
            sig["params"] = [first, *f["params"][1:]]
        out.append(f"{indent}@overload")
        if f["kind"] == "static":
            out.append(f"{indent}@staticmethod")
        elif f["kind"] == "classmethod":
            out.append(f"{indent}@classmethod")
        ret_o = " -> " + ref.render_py(f["ret"], imports, here) if f["ret"] is not None else ""
        out.append(f"{indent}def {f['name']}({render_params(sig, imports, here)}){ret_o}: ...")
    for dsrc in f["deco"]:
        out.append(f"{indent}@{dsrc}")
    if f["kind"] == "static":
        out.append(f"{indent}@staticmethod")
    elif f["kind"] == "classmethod":
        out.append(f"{indent}@classmethod")
    elif f["kind"] == "property":
        out.append(f"{indent}@property")
    ret = ""
    if f["ret"] is not None:
        ret = " -> " + ref.render_py(f["ret"], imports, here)
    prefix = "async def" if f.get("async") else "def"
    out.append(f"{indent}{prefix} {f['name']}({render_params(f, imports, here)}){ret}:")
    inner = indent + IND
    out += render_doc(f.get("doc"), inner)
    for a in f.get("init_attrs", []):
        recv = f.get("recv") or "self"
        if a.get("form") == "tuple_with_local":
            # 'self.x, _local = value, 0': an instance attribute next to a plain (private) name in one tuple target
            out.append(f"{inner}{recv}.{a['name']}, _loc_{a['name'].strip('_')} = {a.get('value') or 'None'}, 0")
        elif a.get("form") == "local_first":
            out.append(f"{inner}_loc_{a['name'].strip('_')}, {recv}.{a['name']} = 0, {a.get('value') or 'None'}")
        elif a.get("ann") is not None:
            out.append(f"{inner}{recv}.{a['name']}: {ref.render_py(a['ann'], imports, here)} = {a.get('value') or 'None'}")
        else:
            out.append(f"{inner}{recv}.{a['name']} = {a.get('value') or 'None'}")
    body = f.get("body")
    if body:
        out += [f"{inner}{ln}" if ln else "" for ln in body]
    elif not f.get("doc") and not f.get("init_attrs"):
        out.append(f"{inner}pass")
    elif not body and f["ret"] is not None:
        out.append(f"{inner}...")
    return out


def render_base(b: list, imports: ref.Imports, here: str) -> str:
    if b[0] == "cls":
        return ref.render_py(b, imports, here)
    if b[0] == "ext":
        imports.add(b[1], b[2])
        return b[2]
    if b[0] == "raw":
        for mod, name in b[2:]:
            imports.add(mod, name)
        return b[1]
    if b[0] == "generic":
        return ref.render_py(b, imports, here)
    raise ValueError(b)


def render_class(c: dict, indent: str, imports: ref.Imports, here: str) -> list[str]:
    out: list[str] = []
    for dsrc in c.get("deco", []):
        out.append(f"{indent}@{dsrc}")
    bases = [render_base(b, imports, here) for b in c["bases"]]
    if c["tparams"]:
        imports.add("typing", "Generic")
        for tp in c["tparams"]:
            imports.tvars[tp["name"]] = tp
        bases.append(f"Generic[{', '.join(tp['name'] for tp in c['tparams'])}]")
    head = f"{indent}class {c['name']}" + (f"({', '.join(bases)})" if bases else "") + ":"
    out.append(head)
    inner = indent + IND
    n0 = len(out)
    out += render_doc(c.get("doc"), inner)
    order = c.get("order")  # optional explicit interleaving: list of ("ctor",) / ("m", idx)
    members = c["members"]
    seq: list[Any] = []
    if order:
        for o in order:
            seq.append(c["ctor"] if o[0] == "ctor" else members[o[1]])
    else:
        attrs = [m for m in members if m["t"] == "attr"]
        rest = [m for m in members if m["t"] != "attr"]
        seq = attrs + ([c["ctor"]] if c.get("ctor") else []) + rest
    for m in seq:
        if m is None:
            continue
        if m["t"] == "attr":
            if m.get("raw"):
                out.append(f"{inner}{m['raw']}")
            elif m["ann"] is not None:
                s = f"{inner}{m['name']}: {ref.render_py(m['ann'], imports, here)}"
                if m["value"] is not None:
                    s += f" = {m['value']}"
                out.append(s)
            else:
                out.append(f"{inner}{m['name']} = {m['value'] if m['value'] is not None else 'None'}")
        elif m["t"] == "func":
            if len(out) > n0:
                out.append("")
            out += render_func(m, inner, imports, here)
        elif m["t"] == "class":
            if len(out) > n0:
                out.append("")
            out += render_class(m, inner, imports, here)
        elif m["t"] == "enum":
            out += render_enum(m, inner, imports)
    if len(out) == n0:
        out.append(f"{inner}pass")
    return out


def render_enum(e: dict, indent: str, imports: ref.Imports) -> list[str]:
    base = e.get("base", "Enum")
    imports.add("enum", base)
    # e["mixin"]: a data type mixed in before the enum base ('class Color(str, Enum)'), values then have that type
    head_bases = f"{e['mixin']}, {base}" if e.get("mixin") else base
    out = [f"{indent}class {e['name']}({head_bases}):"]
    inner = indent + IND
    out += render_doc(e.get("doc"), inner)
    for i, v in enumerate(e["variants"]):
        vals = e.get("values")
        default_val = repr(f"v{i + 1}") if e.get("mixin") == "str" else i + 1
        out.append(f"{inner}{v} = {vals[i] if vals else default_val}")
    if e.get("raw_body"):
        out += [f"{inner}{ln}" for ln in e["raw_body"]]
    if not e["variants"] and not e.get("doc") and not e.get("raw_body"):
        out.append(f"{inner}pass")
    return out


def render_module(m: dict) -> str:
    here = mod_qname(m)
    imports = ref.Imports()
    body: list[str] = []
    for d in m["decls"]:
        body.append("")
        body.append("")
        if d["t"] == "func":
            body += render_func(d, "", imports, here)
        elif d["t"] == "class":
            body += render_class(d, "", imports, here)
        elif d["t"] == "enum":
            body += render_enum(d, "", imports)
        elif d["t"] == "raw":
            body += d["lines"]
    head: list[str] = []
    head += render_doc(m.get("doc"), "")
    if m.get("future", True):
        head.append("from __future__ import annotations")
    head += imports.lines(here)
    head += m.get("pre", [])
    tv = imports.tvar_lines()
    if tv:
        head.append("")
        head += tv
    return "\n".join(head + body) + "\n"


def render_reexport(r: list) -> str:
    if r[0] == "from":
        return f"from {r[1]} import {r[2]}" + (f" as {r[3]}" if r[3] else "")
    if r[0] == "star":
        return f"from {r[1]} import *"
    if r[0] == "module":
        return f"from {r[1]} import {r[2]}" + (f" as {r[3]}" if r[3] else "")
    if r[0] == "import":
        return f"import {r[1]}" + (f" as {r[2]}" if r[2] else "")
    if r[0] == "raw":
        return r[1]
    raise ValueError(r)


def render_package(pkg: dict) -> dict[str, str]:
    files: dict[str, str] = {}
    dirs: set[tuple[str, ...]] = set()
    for m in pkg["modules"]:
        files["/".join(m["path"]) + ".py"] = render_module(m)
        for i in range(1, len(m["path"])):
            dirs.add(tuple(m["path"][:i]))
    for key in pkg["inits"]:
        dirs.add(tuple(key.split("/")))
    no_init = {tuple(x.split("/")) for x in pkg.get("no_init", [])}
    for d in sorted(dirs):
        if d in no_init:
            continue
        key = "/".join(d)
        lines: list[str] = []
        doc = pkg.get("init_docs", {}).get(key)
        lines += render_doc(doc, "")
        for r in pkg["inits"].get(key, []):
            lines.append(render_reexport(r))
        if key + "/__init__.py" in files:  # a module with path [..., "__init__"] carries declarations of its own
            files[key + "/__init__.py"] = "\n".join(lines) + ("\n" if lines else "") + files[key + "/__init__.py"]
        else:
            files[key + "/__init__.py"] = "\n".join(lines) + ("\n" if lines else "")
    for rel, src in pkg.get("extra", {}).items():
        files[rel] = src
    return files


def check_compiles(files: dict[str, str]) -> None:
    from vf.common import HarnessError

    for rel, src in files.items():
        if rel.endswith(".py"):
            try:
                compile(src, rel, "exec")
            except SyntaxError as e:
                raise HarnessError(f"generator produced uncompilable Python in {rel}: {e}\n{src}") from e
