"""Independent recogniser for the subset of the Safe-DS stub language that a generated stub file may contain.

No code is shared with /repo. The reserved-word table is typed in from the Safe-DS language reference as quoted
by property C02. Where the real grammar is uncertain the recogniser takes the lenient reading (see LENIENT).
"""

from __future__ import annotations

import re
from dataclasses import dataclass, field
from typing import Any

KEYWORDS = frozenset(
    """_ and annotation as attr class const enum false from fun import in internal literal not null or out package
    pipeline private schema static segment sub this true union unknown val where yield""".split(),
)
assert len(KEYWORDS) == 33

LENIENT = [
    "any backslash escape '\\x' inside a string literal is accepted",
    "raw newlines and '{' inside string literals are accepted",
    "'?' is accepted after any type, not only after named types",
    "number tokens follow [0-9]+(.[0-9]+)?([eE][+-]?[0-9]+)?",
    "comments do not nest; '/*' inside a comment is ignored",
    "an empty type-argument list 'Name<>' is accepted",
]


class SdsSyntaxError(Exception):
    def __init__(self, msg: str, line: int, col: int = 0) -> None:
        super().__init__(f"line {line}: {msg}")
        self.msg = msg
        self.line = line
        self.col = col


@dataclass
class Tok:
    kind: str  # ID, QID (back-quoted), KW, INT, FLOAT, STRING, DOC, BLOCKC, LINEC, P (punctuation), EOF
    text: str
    line: int
    value: Any = None


_IDENT_RE = re.compile(r"[_a-zA-Z][_a-zA-Z0-9]*")
_NUM_RE = re.compile(r"[0-9]+(\.[0-9]+)?([eE][+-]?[0-9]+)?")
_PUNCT2 = {"->"}
_PUNCT1 = set("@(){}<>,:=?.-[]")


def tokenize(text: str) -> list[Tok]:
    toks: list[Tok] = []
    i, n, line = 0, len(text), 1
    while i < n:
        c = text[i]
        if c == "\n":
            line += 1
            i += 1
            continue
        if c in " \t\r\f\v":
            i += 1
            continue
        if text.startswith("//", i):
            j = text.find("\n", i)
            j = n if j < 0 else j
            toks.append(Tok("LINEC", text[i:j], line, text[i + 2 : j].strip()))
            i = j
            continue
        if text.startswith("/*", i):
            j = text.find("*/", i + 2)
            if j < 0:
                raise SdsSyntaxError("unterminated comment", line)
            body = text[i : j + 2]
            kind = "DOC" if body.startswith("/**") and len(body) > 4 else "BLOCKC"
            toks.append(Tok(kind, body, line, body))
            line += body.count("\n")
            i = j + 2
            continue
        if c == '"':
            j = i + 1
            buf = []
            start_line = line
            while True:
                if j >= n:
                    raise SdsSyntaxError("unterminated string literal", start_line)
                ch = text[j]
                if ch == "\\":
                    if j + 1 >= n:
                        raise SdsSyntaxError("unterminated string literal", start_line)
                    buf.append(text[j : j + 2])
                    j += 2
                    continue
                if ch == '"':
                    break
                if ch == "\n":
                    line += 1
                buf.append(ch)
                j += 1
            raw = "".join(buf)
            toks.append(Tok("STRING", text[i : j + 1], start_line, raw))
            i = j + 1
            continue
        if c == "`":
            m = _IDENT_RE.match(text, i + 1)
            if not m or m.end() >= n or text[m.end()] != "`":
                raise SdsSyntaxError("malformed back-quoted identifier", line)
            toks.append(Tok("QID", text[i : m.end() + 1], line, m.group(0)))
            i = m.end() + 1
            continue
        m = _IDENT_RE.match(text, i)
        if m:
            w = m.group(0)
            toks.append(Tok("KW" if w in KEYWORDS else "ID", w, line, w))
            i = m.end()
            continue
        m = _NUM_RE.match(text, i)
        if m:
            w = m.group(0)
            # a number directly followed by identifier characters is not a token of the language
            if m.end() < n and (text[m.end()].isalnum() or text[m.end()] == "_"):
                raise SdsSyntaxError(f"malformed number {text[i:m.end()+5]!r}", line)
            is_float = m.group(1) is not None or m.group(2) is not None
            toks.append(Tok("FLOAT" if is_float else "INT", w, line, float(w) if is_float else int(w)))
            i = m.end()
            continue
        if text.startswith("->", i):
            toks.append(Tok("P", "->", line))
            i += 2
            continue
        if c in _PUNCT1:
            toks.append(Tok("P", c, line))
            i += 1
            continue
        raise SdsSyntaxError(f"unexpected character {c!r}", line)
    toks.append(Tok("EOF", "", line))
    return toks


def unescape(raw: str) -> str:
    """Value of a string literal body (lenient: unknown escapes denote the escaped character)."""
    out = []
    i = 0
    simple = {"n": "\n", "t": "\t", "r": "\r", "b": "\b", "f": "\f", "v": "\v", "0": "\0"}
    while i < len(raw):
        c = raw[i]
        if c == "\\" and i + 1 < len(raw):
            e = raw[i + 1]
            if e == "u" and re.fullmatch(r"[0-9a-fA-F]{4}", raw[i + 2 : i + 6] or ""):
                out.append(chr(int(raw[i + 2 : i + 6], 16)))
                i += 6
                continue
            out.append(simple.get(e, e))
            i += 2
        else:
            out.append(c)
            i += 1
    return "".join(out)


# ---- tree ------------------------------------------------------------------------------------------
@dataclass
class Prefix:
    docs: list[str] = field(default_factory=list)  # raw '/** ... */' texts
    line_comments: list[str] = field(default_factory=list)  # text after '//'
    annotations: list[tuple[str, str | None]] = field(default_factory=list)  # (name, string argument)

    @property
    def todos(self) -> list[str]:
        return [c[4:].strip() for c in self.line_comments if c.startswith("TODO")]

    @property
    def python_name(self) -> str | None:
        for n, a in self.annotations:
            if n == "PythonName":
                return a
        return None

    @property
    def doc(self) -> str | None:
        return self.docs[-1] if self.docs else None


@dataclass
class Param:
    name: str
    quoted: bool
    annotations: list[tuple[str, str | None]]
    type: tuple | None
    default: tuple | None
    line: int = 0

    @property
    def python_name(self) -> str:
        for n, a in self.annotations:
            if n == "PythonName" and a is not None:
                return a
        return self.name


@dataclass
class Decl:
    kind: str  # class | fun | enum | attr | variant
    name: str
    quoted: bool
    prefix: Prefix
    line: int
    static: bool = False
    type_params: list[tuple[str, str, tuple | None]] = field(default_factory=list)  # (variance, name, bound)
    params: list[Param] | None = None
    supers: list[tuple] = field(default_factory=list)
    results: list[tuple[str, tuple]] = field(default_factory=list)
    type: tuple | None = None
    members: list[Decl] = field(default_factory=list)
    has_body: bool = False

    @property
    def python_name(self) -> str:
        return self.prefix.python_name if self.prefix.python_name is not None else self.name

    def walk(self, owner: tuple[str, ...] = ()):  # noqa: ANN201
        yield owner, self
        for m in self.members:
            yield from m.walk((*owner, self.python_name))


@dataclass
class StubFile:
    doc: str | None
    annotations: list[tuple[str, str | None]]
    package: str
    package_segments: list[tuple[str, bool]]
    imports: list[tuple[str, str, str | None]]  # (package, name, alias)
    members: list[Decl]
    identifiers: list[tuple[str, bool, int]]  # every identifier token (text, quoted, line) in declaration positions

    @property
    def python_module(self) -> str:
        for n, a in self.annotations:
            if n == "PythonModule" and a is not None:
                return a
        return self.package

    def walk(self):  # noqa: ANN201
        for m in self.members:
            yield from m.walk(())


class Parser:
    def __init__(self, text: str) -> None:
        self.toks = tokenize(text)
        self.i = 0
        self.identifiers: list[tuple[str, bool, int]] = []

    # ---- token helpers ----
    @property
    def t(self) -> Tok:
        return self.toks[self.i]

    def adv(self) -> Tok:
        t = self.toks[self.i]
        self.i += 1
        return t

    def err(self, msg: str) -> SdsSyntaxError:
        return SdsSyntaxError(f"{msg}, found {self.t.kind} {self.t.text[:30]!r}", self.t.line)

    def is_p(self, s: str) -> bool:
        return self.t.kind == "P" and self.t.text == s

    def is_kw(self, s: str) -> bool:
        return self.t.kind == "KW" and self.t.text == s

    def expect_p(self, s: str) -> Tok:
        if not self.is_p(s):
            raise self.err(f"expected {s!r}")
        return self.adv()

    def expect_kw(self, s: str) -> Tok:
        if not self.is_kw(s):
            raise self.err(f"expected keyword {s!r}")
        return self.adv()

    def skip_comments(self) -> None:
        while self.t.kind in {"DOC", "BLOCKC", "LINEC"}:
            self.adv()

    def ident(self) -> tuple[str, bool]:
        t = self.t
        if t.kind == "ID":
            self.adv()
            self.identifiers.append((t.text, False, t.line))
            return t.text, False
        if t.kind == "QID":
            self.adv()
            self.identifiers.append((t.value, True, t.line))
            return t.value, True
        if t.kind == "KW":
            raise SdsSyntaxError(f"keyword {t.text!r} used as identifier without back-quotes", t.line)
        raise self.err("expected identifier")

    def qualified_name(self) -> tuple[str, list[tuple[str, bool]]]:
        segs = [self.ident()]
        while self.is_p("."):
            self.adv()
            segs.append(self.ident())
        return ".".join(s for s, _ in segs), segs

    # ---- grammar ----
    def annotation_call(self) -> tuple[str, str | None]:
        self.expect_p("@")
        name, _ = self.ident()
        arg = None
        if self.is_p("("):
            self.adv()
            if self.t.kind == "STRING":
                arg = unescape(self.adv().value)
            elif not self.is_p(")"):
                raise self.err("expected string argument of annotation call")
            self.expect_p(")")
        return name, arg

    def prefix(self) -> Prefix:
        p = Prefix()
        while True:
            t = self.t
            if t.kind == "DOC":
                p.docs.append(self.adv().value)
            elif t.kind == "BLOCKC":
                self.adv()
            elif t.kind == "LINEC":
                p.line_comments.append(self.adv().value)
            elif self.is_p("@"):
                p.annotations.append(self.annotation_call())
            else:
                return p

    def parse_file(self) -> StubFile:
        pre = self.prefix()
        self.expect_kw("package")
        pkg, segs = self.qualified_name()
        imports = []
        while True:
            mark = self.i
            self.skip_comments()
            if not self.is_kw("from"):
                self.i = mark  # comments in front of the first declaration belong to that declaration
                break
            self.adv()
            ipkg, _ = self.qualified_name()
            self.expect_kw("import")
            name, _ = self.ident()
            alias = None
            if self.is_kw("as"):
                self.adv()
                alias, _ = self.ident()
            imports.append((ipkg, name, alias))
        members = []
        while True:
            mp = self.prefix()
            if self.t.kind == "EOF":
                if mp.annotations:
                    raise self.err("annotation call without declaration")
                break
            members.append(self.module_member(mp))
        return StubFile(pre.doc, pre.annotations, pkg, segs, imports, members, self.identifiers)

    def module_member(self, pre: Prefix) -> Decl:
        if self.is_kw("class"):
            return self.class_decl(pre)
        if self.is_kw("fun"):
            return self.fun_decl(pre, static=False)
        if self.is_kw("enum"):
            return self.enum_decl(pre)
        raise self.err("expected class, fun or enum declaration")

    def type_params(self) -> list[tuple[str, str, tuple | None]]:
        out = []
        self.expect_p("<")
        while True:
            variance = ""
            if self.is_kw("in") or self.is_kw("out"):
                variance = self.adv().text
            name, _ = self.ident()
            bound = None
            if self.is_kw("sub"):
                self.adv()
                bound = self.type_()
            out.append((variance, name, bound))
            if self.is_p(","):
                self.adv()
                continue
            break
        self.expect_p(">")
        return out

    def param_list(self) -> list[Param]:
        self.expect_p("(")
        out: list[Param] = []
        self.skip_comments()
        if not self.is_p(")"):
            while True:
                self.skip_comments()
                annos = []
                while self.is_p("@"):
                    annos.append(self.annotation_call())
                line = self.t.line
                name, q = self.ident()
                ty = None
                default = None
                if self.is_p(":"):
                    self.adv()
                    ty = self.type_()
                if self.is_p("="):
                    self.adv()
                    default = self.literal_expr()
                out.append(Param(name, q, annos, ty, default, line))
                self.skip_comments()
                if self.is_p(","):
                    self.adv()
                    continue
                break
        self.expect_p(")")
        return out

    def class_decl(self, pre: Prefix) -> Decl:
        line = self.expect_kw("class").line
        name, q = self.ident()
        d = Decl("class", name, q, pre, line)
        if self.is_p("<"):
            d.type_params = self.type_params()
        if self.is_p("("):
            d.params = self.param_list()
        if self.is_kw("sub"):
            self.adv()
            d.supers.append(self.type_())
            while self.is_p(","):
                self.adv()
                d.supers.append(self.type_())
        if self.is_p("{"):
            self.adv()
            d.has_body = True
            while True:
                mp = self.prefix()
                if self.is_p("}"):
                    if mp.annotations:
                        raise self.err("annotation call without declaration")
                    self.adv()
                    break
                d.members.append(self.class_member(mp))
        return d

    def class_member(self, pre: Prefix) -> Decl:
        static = False
        if self.is_kw("static"):
            self.adv()
            static = True
        if self.is_kw("attr"):
            line = self.adv().line
            name, q = self.ident()
            d = Decl("attr", name, q, pre, line, static=static)
            if self.is_p(":"):
                self.adv()
                d.type = self.type_()
            return d
        if self.is_kw("fun"):
            return self.fun_decl(pre, static)
        if self.is_kw("class") and not static:
            return self.class_decl(pre)
        if self.is_kw("enum") and not static:
            return self.enum_decl(pre)
        raise self.err("expected class member")

    def fun_decl(self, pre: Prefix, static: bool) -> Decl:
        line = self.expect_kw("fun").line
        name, q = self.ident()
        d = Decl("fun", name, q, pre, line, static=static)
        if self.is_p("<"):
            d.type_params = self.type_params()
        d.params = self.param_list()
        if self.is_p("->"):
            self.adv()
            d.results = self.result_list()
        return d

    def result_list(self) -> list[tuple[str, tuple]]:
        out = []
        if self.is_p("("):
            self.adv()
            if not self.is_p(")"):
                while True:
                    n, _ = self.ident()
                    self.expect_p(":")
                    out.append((n, self.type_()))
                    if self.is_p(","):
                        self.adv()
                        continue
                    break
            self.expect_p(")")
        else:
            n, _ = self.ident()
            self.expect_p(":")
            out.append((n, self.type_()))
        return out

    def enum_decl(self, pre: Prefix) -> Decl:
        line = self.expect_kw("enum").line
        name, q = self.ident()
        d = Decl("enum", name, q, pre, line)
        if self.is_p("{"):
            self.adv()
            d.has_body = True
            while True:
                mp = self.prefix()
                if self.is_p("}"):
                    if mp.annotations:
                        raise self.err("annotation call without declaration")
                    self.adv()
                    break
                vline = self.t.line
                vn, vq = self.ident()
                d.members.append(Decl("variant", vn, vq, mp, vline))
        return d

    def type_(self) -> tuple:
        t = self.atom_type()
        if self.is_p("?"):
            self.adv()
            t = ("nullable", t)
        return t

    def atom_type(self) -> tuple:
        if self.is_kw("union"):
            self.adv()
            self.expect_p("<")
            items = [self.type_()]
            while self.is_p(","):
                self.adv()
                items.append(self.type_())
            self.expect_p(">")
            return ("union", tuple(items))
        if self.is_kw("literal"):
            self.adv()
            self.expect_p("<")
            items = [self.literal_expr()]
            while self.is_p(","):
                self.adv()
                items.append(self.literal_expr())
            self.expect_p(">")
            return ("literal", tuple(items))
        if self.is_kw("unknown"):
            self.adv()
            return ("unknown",)
        if self.is_p("("):
            self.adv()
            params = []
            if not self.is_p(")"):
                while True:
                    n, _ = self.ident()
                    self.expect_p(":")
                    params.append((n, self.type_()))
                    if self.is_p(","):
                        self.adv()
                        continue
                    break
            self.expect_p(")")
            self.expect_p("->")
            results = self.result_list()
            return ("callable", tuple(params), tuple(results))
        name, _ = self.qualified_name()
        args: list[tuple] = []
        if self.is_p("<"):
            self.adv()
            if not self.is_p(">"):  # lenient: an empty type-argument list 'Tuple<>' is accepted
                args.append(self.type_())
                while self.is_p(","):
                    self.adv()
                    args.append(self.type_())
            self.expect_p(">")
        return ("named", name, tuple(args))

    def literal_expr(self) -> tuple:
        t = self.t
        if t.kind == "STRING":
            self.adv()
            return ("str", unescape(t.value))
        if t.kind == "INT":
            self.adv()
            return ("int", t.value)
        if t.kind == "FLOAT":
            self.adv()
            return ("float", t.value)
        if self.is_p("-"):
            self.adv()
            t = self.t
            if t.kind == "INT":
                self.adv()
                return ("int", -t.value)
            if t.kind == "FLOAT":
                self.adv()
                return ("float", -t.value)
            raise self.err("expected number after '-'")
        if t.kind == "KW" and t.text in {"true", "false"}:
            self.adv()
            return ("bool", t.text == "true")
        if self.is_kw("null"):
            self.adv()
            return ("null",)
        if self.is_kw("unknown"):
            self.adv()
            return ("unknown",)
        if self.is_p("["):
            self.adv()
            self.expect_p("]")
            return ("list",)
        if self.is_p("{"):
            self.adv()
            self.expect_p("}")
            return ("map",)
        raise self.err("expected literal expression")


def parse(text: str) -> StubFile:
    return Parser(text).parse_file()


# ---- helpers used by several oracles ---------------------------------------------------------------
def doc_lines(doc: str | None) -> list[str]:
    """Content lines of a '/** ... */' comment with the ' * ' gutter removed."""
    if not doc:
        return []
    body = doc[3:-2] if doc.startswith("/**") else doc[2:-2]
    out = []
    for ln in body.split("\n"):
        s = ln.strip()
        if s.startswith("*"):
            s = s[1:]
            if s.startswith(" "):
                s = s[1:]
        out.append(s.rstrip())
    while out and out[0] == "":
        out.pop(0)
    while out and out[-1] == "":
        out.pop()
    return out


def type_to_str(t: tuple | None) -> str:
    if t is None:
        return ""
    k = t[0]
    if k == "nullable":
        return type_to_str(t[1]) + "?"
    if k == "named":
        return t[1] + (f"<{', '.join(type_to_str(a) for a in t[2])}>" if t[2] else "")
    if k == "union":
        return f"union<{', '.join(type_to_str(a) for a in t[1])}>"
    if k == "literal":
        return f"literal<{', '.join(repr(a) for a in t[1])}>"
    if k == "callable":
        return f"({', '.join(n + ': ' + type_to_str(x) for n, x in t[1])}) -> ({', '.join(n + ': ' + type_to_str(x) for n, x in t[2])})"
    return "unknown"


def named_refs(t: tuple | None) -> list[str]:
    """All class names referenced by a type tree."""
    if t is None:
        return []
    k = t[0]
    if k == "nullable":
        return named_refs(t[1])
    if k == "named":
        out = [t[1]]
        for a in t[2]:
            out += named_refs(a)
        return out
    if k == "union":
        return [r for a in t[1] for r in named_refs(a)]
    if k == "callable":
        return [r for _, a in t[1] for r in named_refs(a)] + [r for _, a in t[2] for r in named_refs(a)]
    return []
