"""Generator and ground-truth facts for the 'structure' profile (C03, C04, C10, C11, C12, C15, C18): package trees with
public/private packages, modules, classes (nested), members, enums and re-exports in __init__ files.

All declaration names are unique within a generated package, so a declaration can be looked up by its name chain.
"""

from __future__ import annotations

from typing import Any

from hypothesis import strategies as st

from vf import gen, gt

SIMPLE_TYPES = [["int"], ["str"], ["bool"], ["float"], ["list", ["int"]], ["opt", ["str"]], ["dict", ["str"], ["int"]]]


CONFUSABLE = "reexp:module_named_like_reexported_declaration"


def is_private_name(name: str) -> bool:
    return name.startswith("_") and not (name.startswith("__") and name.endswith("__") and len(name) > 4)


@st.composite
def _members(draw: Any, namer: gen.Namer, depth: int, priv_bias: int, top_pool: tuple[str, ...] = (), tuple_targets: bool = False) -> tuple[list[dict], dict | None]:
    members: list[dict] = []

    used: set[str] = set()
    # nested classes may also be named like a top-level class or enum declared earlier in the package (another module
    # or the same one): the simple name repeats, the name chain stays unique
    shared = {"ca": ["name", "limit", "value"], "me": ["run", "reset", "value_of"], "ia": ["name", "weight", "limit"], "Nest": ["Meta", "Entry", *top_pool]}

    def nm(stem: str, allow_dunder: bool = False) -> str:
        r = draw(st.integers(0, priv_bias))
        base = namer.fresh(stem)
        # member names may repeat in other classes (and in enclosing / nested classes): only the chain must be unique
        if stem in shared and draw(st.integers(0, 2)) == 0:
            cand = draw(st.sampled_from(shared[stem]))
            if cand not in used and ("_" + cand) not in used:
                base = cand
        used.add(base)
        used.add("_" + base)
        if r == 0:
            return "_" + base
        if allow_dunder and r == 1 and draw(st.booleans()):
            return f"__{base}__"
        if r == 2 and draw(st.booleans()):
            return base + "_"
        return base

    for _ in range(draw(st.integers(0, 3))):
        members.append(gt.attr(nm("ca"), draw(st.sampled_from(SIMPLE_TYPES)), None))
    for _ in range(draw(st.integers(0, 3))):
        kind = draw(st.sampled_from(["method", "method", "static", "classmethod", "property"]))
        params = [] if kind == "property" else [gt.param(namer.fresh("p"), "pos", ["int"], None) for _ in range(draw(st.sampled_from([0, 1, 1, 2, 4])))]
        members.append(gt.func(nm("me", allow_dunder=(kind == "method")), params, ret=draw(st.sampled_from(SIMPLE_TYPES)), kind=kind))
        # an overloaded method: '@overload' signatures in front of the (for static / class methods: decorated) implementation
        if kind != "property" and draw(st.integers(0, 5)) == 0:
            members[-1]["overloads"] = draw(st.integers(1, 3))
    if depth < 2:
        for _ in range(draw(st.sampled_from([0, 0, 1, 1, 2]))):
            sub_members, sub_ctor = draw(_members(namer, depth + 1, priv_bias, top_pool, tuple_targets))
            members.append(gt.klass(nm("Nest"), sub_members, ctor=sub_ctor))
    ctor = None
    if draw(st.booleans()):
        cparams = [gt.param(namer.fresh("cp"), "pos", draw(st.sampled_from(SIMPLE_TYPES)), None) for _ in range(draw(st.integers(0, 2)))]
        ias = []
        for p in cparams:
            if draw(st.booleans()):
                ias.append({"name": nm("ia"), "ann": None, "value": p["name"]})
                form = draw(st.sampled_from([None, None, None, "tuple_with_local", "local_first"])) if tuple_targets else None
                if form:
                    ias[-1]["form"] = form
        # an attribute defined in the class body AND in __init__ (first definition wins)
        body_attrs = [m for m in members if m["t"] == "attr"]
        if body_attrs and draw(st.integers(0, 2)) == 0:
            ias.append({"name": body_attrs[0]["name"], "ann": None, "value": "0", "dup": True})
        if draw(st.integers(0, 3)) == 0:
            ias.append({"name": nm("ia"), "ann": ["int"], "value": "1"})
        ctor = gt.func("__init__", cparams, kind="method", init_attrs=ias)
    perm = draw(st.permutations(range(len(members))))
    return [members[i] for i in perm], ctor


def class_order(draw: Any, cls: dict) -> None:
    """Draws an explicit source order for the members of a class (and of its nested classes): attributes, methods,
    nested classes and the constructor interleaved in any order (the default renderer puts attributes first)."""
    n = len(cls["members"])
    if draw(st.booleans()):
        items: list[list] = [["m", i] for i in range(n)] + ([["ctor"]] if cls.get("ctor") else [])
        perm = draw(st.permutations(range(len(items))))
        order = [items[i] for i in perm]
        # core domain: a constructor that re-assigns an attribute of the class body comes after that attribute's
        # declaration (the reverse order loses the attribute: open finding KF-C03-init-before-body-declaration)
        if cls.get("ctor") and any(a.get("dup") for a in cls["ctor"].get("init_attrs", [])):
            order = [o for o in order if o[0] != "ctor"] + [["ctor"]]
        cls["order"] = order
    for m in cls["members"]:
        if m["t"] == "class":
            class_order(draw, m)


@st.composite
def struct_package(draw: Any, pkgname: str, want_reexports: bool = True, priv_bias: int = 3, with_enums: bool = True, tuple_targets: bool = False, inherit: bool = False) -> dict:
    namer = gen.Namer()
    # ---- package tree
    pkgs: list[list[str]] = [[pkgname]]
    for _ in range(draw(st.integers(0, 2))):
        sub = draw(st.sampled_from(["sub", "_hidden", "part"])) + str(len(pkgs))
        pkgs.append([pkgname, sub])
        if draw(st.integers(0, 2)) == 0:
            pkgs.append([pkgname, sub, draw(st.sampled_from(["deep", "_core"])) + str(len(pkgs))])
    modules: list[dict] = []
    top_pool: list[str] = []  # simple names of the top-level classes / enums generated so far
    for p in pkgs:
        for _ in range(draw(st.integers(1, 2)) if len(p) == 1 else draw(st.integers(1, 2))):
            mname = draw(st.sampled_from(["mod", "_impl", "core", "_base", "util"])) + str(len(modules))
            decls: list[dict] = []
            for _ in range(draw(st.integers(1, 4))):
                k = draw(st.sampled_from(["func", "class", "class", "enum"] if with_enums else ["func", "class", "class"]))
                priv = draw(st.integers(0, priv_bias)) == 0
                if k == "func":
                    decls.append(gt.func(("_" if priv else "") + namer.fresh("fn"), [gt.param(namer.fresh("a"), "pos", ["int"], None)], ret=draw(st.sampled_from(SIMPLE_TYPES))))
                elif k == "class":
                    members, ctor = draw(_members(namer, 0, priv_bias, tuple(top_pool), tuple_targets))
                    decls.append(gt.klass(("_" if priv else "") + namer.fresh("Cls"), members, ctor=ctor))
                    class_order(draw, decls[-1])
                    top_pool.append(decls[-1]["name"].lstrip("_"))
                else:
                    variants = [("_" if draw(st.integers(0, 5)) == 0 else "") + namer.fresh("V") for _ in range(draw(st.integers(0, 3)))]
                    ename = namer.fresh("En")
                    # an enum named like nested classes elsewhere in the package ('Meta', 'Entry'), once per package
                    if draw(st.integers(0, 2)) == 0:
                        cand = draw(st.sampled_from(["Meta", "Entry"]))
                        if cand not in top_pool:
                            ename = cand
                    decls.append(gt.enum(("_" if priv else "") + ename, variants))
                    # enums with a mixed-in data type ('class Color(str, Enum)') or based on IntEnum
                    shape = draw(st.sampled_from(["plain", "plain", "str", "int", "IntEnum"]))
                    if shape in {"str", "int"}:
                        decls[-1]["mixin"] = shape
                    elif shape == "IntEnum":
                        decls[-1]["base"] = "IntEnum"
                    top_pool.append(ename)
            if inherit:
                earlier: list[dict] = []
                for d in decls:
                    if d["t"] != "class":
                        continue
                    if earlier and draw(st.integers(0, 2)) == 0:
                        d["bases"] = [["raw", draw(st.sampled_from(earlier))["name"]]]
                    earlier.append(d)
            modules.append(gt.module([*p, mname], decls))
    # ---- re-exports (core forms: one re-export per declaration, in the module's package or an ancestor)
    inits: dict[str, list] = {}
    reexp: list[dict] = []
    used_collision_names: set[str] = set()
    if want_reexports:
        for m in modules:
            ppath = m["path"][:-1]
            mode = draw(st.sampled_from(["none", "none", "names", "names", "star", "module"]))
            if mode == "none":
                continue
            # target package: the module's own package or an ancestor
            depth = draw(st.integers(1, len(ppath)))
            target = ppath[:depth]
            own = depth == len(ppath)
            relative = own and draw(st.booleans())
            modref = ("." + m["path"][-1]) if relative else ".".join(m["path"])
            key = "/".join(target)
            if mode == "names":
                for d in m["decls"]:
                    if d["t"] == "enum" or draw(st.booleans()):
                        continue
                    if d["t"] == "func" and not is_private_name(d["name"]) and draw(st.integers(0, 3)) == 0:
                        # a re-exported function named like (a prefix of) a path segment: 'from ._bar import progress'
                        # in package 'progress', or a name that also starts the name of the output directory
                        cand = draw(st.sampled_from([target[-1].lstrip("_"), target[-1].lstrip("_")[:3], "o", "out", "tmp", "deep", "s", pkgname[:3]]))
                        if cand and cand not in used_collision_names and cand.isidentifier():
                            used_collision_names.add(cand)
                            d["name"] = cand
                    alias = None
                    r = draw(st.integers(0, 5))
                    if r == 0:
                        alias = namer.fresh("Alias" if d["t"] == "class" else "alias_fn")
                    elif r == 1 and is_private_name(d["name"]):
                        # (a public declaration re-exported under a private alias is an extended feature)
                        alias = "_" + namer.fresh("HiddenAlias" if d["t"] == "class" else "hidden_alias")
                    inits.setdefault(key, []).append(["from", modref, d["name"], alias])
                    reexp.append({"module": m["path"], "decl": d["name"], "target": target, "alias": alias, "form": "name"})
            elif mode == "star":
                inits.setdefault(key, []).append(["star", modref])
                for d in m["decls"]:
                    reexp.append({"module": m["path"], "decl": d["name"], "target": target, "alias": None, "form": "star"})
            elif mode == "module" and own:
                alias = draw(st.sampled_from([None, None, "pub", "_hid"]))
                if alias:
                    alias = alias + "_" + namer.fresh("m")
                frm = "." if relative else ".".join(ppath)
                inits.setdefault(key, []).append(["module", frm, m["path"][-1], alias])
                for d in m["decls"]:
                    reexp.append({"module": m["path"], "decl": d["name"], "target": target, "alias": None, "form": "module", "module_alias": alias})
    pkg = gt.package(pkgname, modules, inits)
    _ = reexp
    return pkg


# ---- ground-truth facts -----------------------------------------------------------------------------------------
class Facts:
    """Publicity, expected names and expected containers of every declaration, derived from the property text."""

    def __init__(self, pkg: dict) -> None:
        self.pkg = pkg
        self.entries: list[dict] = []  # one per declaration (incl. members)
        rx: dict[tuple, list[dict]] = {}
        by_path = {tuple(m["path"]): m for m in pkg["modules"]}
        for key, stmts in pkg.get("inits", {}).items():
            target = key.split("/")
            for stmt in stmts:
                form = stmt[0]
                if form in {"from", "star"}:
                    ref = stmt[1]
                    mpath = tuple([*target, *ref.lstrip(".").split(".")]) if ref.startswith(".") else tuple(ref.split("."))
                    m = by_path.get(mpath)
                    if m is None:
                        continue
                    for d in m["decls"]:
                        if form == "from" and d["name"] != stmt[2]:
                            continue
                        rx.setdefault((mpath, d["name"]), []).append({"target": target, "form": "name" if form == "from" else "star", "alias": stmt[3] if form == "from" else None})
                elif form == "module":
                    frm = stmt[1]
                    base = target if frm == "." else frm.split(".")
                    mpath = tuple([*base, stmt[2]])
                    m = by_path.get(mpath)
                    if m is None:
                        continue
                    for d in m["decls"]:
                        rx.setdefault((mpath, d["name"]), []).append({"target": target, "form": "module", "alias": None, "module_alias": stmt[3]})
        # a module named like a declaration that some __init__ re-exports by name (from another module): the tool matches
        # re-exports by name suffix and takes the module for the re-exported thing (open finding, extended feature)
        from_names = {stmt[2] for stmts in pkg.get("inits", {}).values() for stmt in stmts if stmt[0] == "from"}
        module_names = {m["path"][-1] for m in pkg["modules"]}
        for m in pkg["modules"]:
            mod_private_path = any(is_private_name(seg) for seg in m["path"][1:])
            for d in m["decls"]:
                if m["path"][-1] in from_names or (d["name"] in module_names and d["name"] in from_names):
                    d["tags"] = sorted(set(d.get("tags", [])) | {CONFUSABLE})
                res = rx.get((tuple(m["path"]), d["name"]), [])
                names = {d["name"]}
                containers = {".".join(m["path"])}
                public = not mod_private_path and not is_private_name(d["name"])
                extra_tags: list[str] = []
                for r in res:
                    if r["form"] == "name":
                        exported = r["alias"] or d["name"]
                        ok = not is_private_name(exported)
                    elif r["form"] == "star":
                        exported = d["name"]
                        ok = not is_private_name(d["name"])
                    else:  # module re-export: 'from . import _m [as alias]' makes the module reachable as pkg.<alias or name>
                        exported = d["name"]
                        mod_name = r.get("module_alias") or m["path"][-1]
                        ok = not is_private_name(mod_name) and not is_private_name(d["name"])
                        if is_private_name(mod_name):
                            extra_tags.append("reexp:module_under_private_name")
                    if ok:
                        public = True
                        names.add(exported)
                    containers.add(".".join(r["target"]))
                if extra_tags:
                    d.setdefault("tags", [])
                    d["tags"] = sorted(set(d["tags"]) | set(extra_tags))
                self._add(m, (), d, public, names, containers, bool(res), sorted(names))

    def _add(self, m: dict, owner: tuple[str, ...], d: dict, public: bool, names: set[str], containers: set[str], reexported: bool, top_names: list[str]) -> None:
        kind = {"func": "fun", "class": "class", "enum": "enum", "attr": "attr"}[d["t"]]
        if d["t"] == "func" and d["kind"] == "property":
            kind = "attr"
        if owner:
            chains = [(tn, *owner[1:], d["name"]) for tn in top_names]
        else:
            chains = [(n,) for n in sorted(names)]
        e = {"module": m["path"], "owner": owner, "name": d["name"], "names": sorted(names), "kind": kind, "public": public, "containers": sorted(containers), "reexported": reexported, "decl": d, "chains": chains, "id": "/".join([*m["path"], *owner, d["name"]])}
        self.entries.append(e)
        if d["t"] == "class":
            chain = (*owner, d["name"])
            seen_attrs: set[str] = set()
            for mem in d["members"]:
                mp = public and not is_private_name(mem["name"])
                if mem["t"] == "attr":
                    seen_attrs.add(mem["name"])
                if d.get("tags"):
                    mem["tags"] = sorted(set(mem.get("tags", [])) | {t for t in d["tags"] if t.startswith("reexp:")})
                self._add(m, chain, mem, mp, {mem["name"]}, containers, reexported, top_names)
            if d.get("ctor"):
                for a in d["ctor"].get("init_attrs", []):
                    if a["name"] in seen_attrs:
                        continue
                    seen_attrs.add(a["name"])
                    ia = gt.attr(a["name"], a.get("ann"), a.get("value"), tags=[t for t in d.get("tags", []) if t.startswith("reexp:")])
                    ia["instance"] = True
                    self._add(m, chain, ia, public and not is_private_name(a["name"]), {a["name"]}, containers, reexported, top_names)
        elif d["t"] == "enum":
            for v in d["variants"]:
                self.entries.append({"module": m["path"], "owner": (*owner, d["name"]), "name": v, "names": [v], "kind": "variant", "public": public and not is_private_name(v), "containers": sorted(containers), "reexported": reexported, "decl": {"t": "variant", "name": v, "tags": [t for t in d.get("tags", []) if t.startswith("reexp:")]}, "chains": [(tn, v) for tn in top_names], "id": "/".join([*m["path"], d["name"], v])})
