"""Type terms of the ground-truth model: rendering to Python annotations, reference translation to Safe-DS
(written from the statement of property C05, not from the implementation), and canonical forms for comparison.

Type term T (JSON lists):
  ["int"] ["str"] ["bool"] ["float"] ["none"] ["any"]
  ["cls", "pkg.mod:Outer.Inner"]  ["enum", "pkg.mod:Name"]  ["ext", "module", "Name"]  ["tvar", "T"]
  ["list", T] ["seq", T] ["coll", T] ["set", T] ["dict", K, V] ["mapping", K, V] ["tuple", [T...]]
  ["opt", T] ["pipenone", T] ["nonepipe", T] ["union", [T...]] ["pipe", [T...]]
  ["literal", [v...]]  ["callable", [T...], R]  ["generic", "pkg.mod:Name", [T...]]  ["final", T]
  ["listn", [T...]] ["setn", [T...]]   list/set with several type arguments (illegal for the type checker, legal input
                                        for the tool: only meaningful at the top level of an annotation)
  ["raw", python_source, [[module, name]...]]   (opaque, never judged by C05)
"""

from __future__ import annotations

from typing import Any

BASE_SDS = {"int": "Int", "str": "String", "bool": "Boolean", "float": "Float"}
BUILTIN_SDS_NAMES = {"Int", "String", "Boolean", "Float", "Nothing", "Any", "List", "Map", "Set", "Tuple"}


class Imports:
    def __init__(self) -> None:
        self.items: set[tuple[str, str]] = set()
        self.tvars: dict[str, dict] = {}

    def add(self, module: str, name: str) -> None:
        self.items.add((module, name))

    def lines(self, here: str) -> list[str]:
        out = []
        for mod, name in sorted(self.items):
            if mod == here:
                continue
            out.append(f"from {mod} import {name}")
        return out

    def tvar_lines(self) -> list[str]:
        out = []
        if self.tvars:
            out.append("from typing import TypeVar")
        for name, tp in sorted(self.tvars.items()):
            args = [repr(name)]
            sub = Imports()
            for v in tp.get("values", []) or []:
                args.append(render_py(v, sub, ""))
            if tp.get("bound") is not None:
                args.append("bound=" + render_py(tp["bound"], sub, ""))
            if tp.get("variance") == "out":
                args.append("covariant=True")
            elif tp.get("variance") == "in":
                args.append("contravariant=True")
            for mod, nm in sorted(sub.items):
                out.insert(0, f"from {mod} import {nm}")
            out.append(f"{name} = TypeVar({', '.join(args)})")
        return out


def split_ref(q: str) -> tuple[str, list[str]]:
    mod, path = q.split(":")
    return mod, path.split(".")


def short_name(q: str) -> str:
    return q.split(":")[1].split(".")[-1]


def render_py(t: list, imports: Imports, here: str) -> str:
    k = t[0]
    if k in {"int", "str", "bool", "float"}:
        return k
    if k == "none":
        return "None"
    if k == "any":
        imports.add("typing", "Any")
        return "Any"
    if k in {"cls", "enum"}:
        mod, path = split_ref(t[1])
        if mod != here:
            imports.add(mod, path[0])
        return ".".join(path)
    if k == "ext":
        imports.add(t[1], t[2])
        return t[2]
    if k == "tvar":
        imports.tvars.setdefault(t[1], {"name": t[1], "bound": t[2] if len(t) > 2 else None})  # ["tvar", name, bound?]
        return t[1]
    if k == "list":
        return f"list[{render_py(t[1], imports, here)}]"
    if k == "set":
        return f"set[{render_py(t[1], imports, here)}]"
    if k == "seq":
        imports.add("collections.abc", "Sequence")
        return f"Sequence[{render_py(t[1], imports, here)}]"
    if k == "coll":
        imports.add("collections.abc", "Collection")
        return f"Collection[{render_py(t[1], imports, here)}]"
    if k == "dict":
        return f"dict[{render_py(t[1], imports, here)}, {render_py(t[2], imports, here)}]"
    if k == "mapping":
        imports.add("collections.abc", "Mapping")
        return f"Mapping[{render_py(t[1], imports, here)}, {render_py(t[2], imports, here)}]"
    if k == "tuple":
        return f"tuple[{', '.join(render_py(x, imports, here) for x in t[1])}]"
    if k == "listn":
        return f"list[{', '.join(render_py(x, imports, here) for x in t[1])}]"
    if k == "setn":
        return f"set[{', '.join(render_py(x, imports, here) for x in t[1])}]"
    if k == "opt":
        imports.add("typing", "Optional")
        return f"Optional[{render_py(t[1], imports, here)}]"
    if k == "pipenone":
        return f"{_paren(t[1], imports, here)} | None"
    if k == "nonepipe":
        return f"None | {_paren(t[1], imports, here)}"
    if k == "union":
        imports.add("typing", "Union")
        return f"Union[{', '.join(render_py(x, imports, here) for x in t[1])}]"
    if k == "pipe":
        return " | ".join(_paren(x, imports, here) for x in t[1])
    if k == "literal":
        imports.add("typing", "Literal")
        return f"Literal[{', '.join(repr(v) for v in t[1])}]"
    if k == "callable":
        imports.add("collections.abc", "Callable")
        return f"Callable[[{', '.join(render_py(x, imports, here) for x in t[1])}], {render_py(t[2], imports, here)}]"
    if k == "generic":
        mod, path = split_ref(t[1])
        if mod != here:
            imports.add(mod, path[0])
        return f"{'.'.join(path)}[{', '.join(render_py(x, imports, here) for x in t[2])}]"
    if k == "final":
        imports.add("typing", "Final")
        return f"Final[{render_py(t[1], imports, here)}]"
    if k == "raw":
        for mod, name in t[2] if len(t) > 2 else []:
            imports.add(mod, name)
        return t[1]
    raise ValueError(t)


def _paren(t: list, imports: Imports, here: str) -> str:
    s = render_py(t, imports, here)
    return f"({s})" if t[0] in {"callable"} else s


def depth(t: list) -> int:
    k = t[0]
    if k in {"int", "str", "bool", "float", "none", "any", "cls", "enum", "ext", "tvar", "literal", "raw"}:
        return 0
    if k in {"list", "seq", "coll", "set", "opt", "pipenone", "nonepipe", "final"}:
        return 1 + depth(t[1])
    if k in {"dict", "mapping"}:
        return 1 + max(depth(t[1]), depth(t[2]))
    if k in {"tuple", "union", "pipe", "listn", "setn"}:
        return 1 + max([depth(x) for x in t[1]], default=0)
    if k == "callable":
        return 1 + max([depth(x) for x in t[1]] + [depth(t[2])])
    if k == "generic":
        return 1 + max([depth(x) for x in t[2]], default=0)
    raise ValueError(t)


def kinds_in(t: list) -> set[str]:
    out = {t[0]}
    for x in t[1:]:
        if isinstance(x, list) and x and isinstance(x[0], str) and not (t[0] == "literal"):
            if x[0] in _KINDS:
                out |= kinds_in(x)
        if isinstance(x, list) and t[0] != "literal":
            for y in x:
                if isinstance(y, list) and y and isinstance(y[0], str) and y[0] in _KINDS:
                    out |= kinds_in(y)
    return out


_KINDS = {
    "int", "str", "bool", "float", "none", "any", "cls", "enum", "ext", "tvar", "list", "seq", "coll", "set", "dict",
    "mapping", "tuple", "opt", "pipenone", "nonepipe", "union", "pipe", "literal", "callable", "generic", "final", "raw", "listn", "setn",
}  # fmt: skip


def has_raw(t: list) -> bool:
    return "raw" in kinds_in(t)


# ---- canonical Safe-DS types ------------------------------------------------------------------------
# canonical forms:  ("named", name, (args...)) | ("N",) = Nothing? | ("L", frozenset of literal values)
#                 | ("U", frozenset(members)) | ("C", (param types...), (result types...)) | ("unknown",)
N = ("N",)


def mk_union(members: list) -> tuple:
    flat: list = []
    for m in members:
        if m[0] == "U":
            flat.extend(m[1])
        else:
            flat.append(m)
    lits: set = set()
    rest: set = set()
    for m in flat:
        if m[0] == "L":
            lits |= set(m[1])
        else:
            rest.add(m)
    if lits:
        rest.add(("L", frozenset(lits)))
    if len(rest) == 1:
        return next(iter(rest))
    return ("U", frozenset(rest))


def lit_value(v: Any) -> tuple:
    if isinstance(v, bool):
        return ("bool", v)
    if isinstance(v, int):
        return ("int", v)
    if isinstance(v, float):
        return ("float", v)
    if isinstance(v, str):
        return ("str", v)
    raise ValueError(v)


def tr(t: list, position: str = "param") -> tuple:
    """Reference translation of an annotation term into a canonical Safe-DS type (C05 statement)."""
    k = t[0]
    if k in BASE_SDS:
        return ("named", BASE_SDS[k], ())
    if k == "none":
        return N
    if k == "any":
        return ("named", "Any", ())
    if k in {"cls", "enum"}:
        return ("named", short_name(t[1]), ())
    if k == "ext":
        return ("named", t[2], ())
    if k == "tvar":
        return ("named", t[1], ())
    if k in {"list", "seq", "coll"}:
        return ("named", "List", (tr(t[1]),))
    if k == "set":
        return ("named", "Set", (tr(t[1]),))
    if k in {"dict", "mapping"}:
        return ("named", "Map", (tr(t[1]), tr(t[2])))
    if k == "tuple":
        return ("named", "Tuple", tuple(tr(x) for x in t[1]))
    if k == "listn":
        return ("named", "List", tuple(tr(x) for x in t[1]))
    if k == "setn":
        return ("named", "Set", tuple(tr(x) for x in t[1]))
    if k in {"opt", "pipenone", "nonepipe"}:
        return mk_union([tr(t[1]), N])
    if k in {"union", "pipe"}:
        return mk_union([tr(x) for x in t[1]])
    if k == "literal":
        members = []
        vals = [v for v in t[1] if v is not None]
        if vals:
            members.append(("L", frozenset(lit_value(v) for v in vals)))
        if any(v is None for v in t[1]):
            members.append(N)
        return mk_union(members)
    if k == "callable":
        r = t[2]
        while r[0] == "union" and len(r[1]) == 1:  # Union[X] is X for the type checker
            r = r[1][0]
        if r[0] == "none":
            results: tuple = ()
        elif r[0] == "tuple":
            results = tuple(tr(x) for x in r[1])
        else:
            results = (tr(r),)
        if results == (N,):  # a callable returning only None has no result ('-> ()'), however None is spelled
            results = ()
        return ("C", tuple(tr(x) for x in t[1]), results)
    if k == "generic":
        return ("named", short_name(t[1]), tuple(tr(x) for x in t[2]))
    if k == "final":
        return tr(t[1])
    raise ValueError(t)


def canon(s: tuple | None) -> tuple | None:
    """Canonical form of a parsed stub type (sdsparse type tree)."""
    if s is None:
        return None
    k = s[0]
    if k == "nullable":
        return mk_union([canon(s[1]), N])
    if k == "named":
        if s[1] == "Nothing":
            return ("named", "Nothing", ())
        return ("named", s[1], tuple(canon(a) for a in s[2]))
    if k == "union":
        return mk_union([canon(a) for a in s[1]])
    if k == "literal":
        members = []
        vals = [v for v in s[1] if v[0] != "null"]
        if vals:
            members.append(("L", frozenset(vals)))
        if any(v[0] == "null" for v in s[1]):
            members.append(N)
        return mk_union(members) if members else ("L", frozenset())
    if k == "callable":
        return ("C", tuple(canon(x) for _, x in s[1]), tuple(canon(x) for _, x in s[2]))  # (N,) results are folded below
    if k == "unknown":
        return ("unknown",)
    raise ValueError(s)


def canon_fix_nothing(c: tuple | None) -> tuple | None:
    """'Nothing?' parses as nullable(named Nothing) = U{Nothing, N}; the Safe-DS type Nothing? denotes just null."""
    if c is None:
        return None
    k = c[0]
    if k == "U":
        members = {canon_fix_nothing(m) for m in c[1]}
        if ("named", "Nothing", ()) in members:
            members.discard(("named", "Nothing", ()))
            members.add(N)
        return mk_union(list(members))
    if k == "named":
        return ("named", c[1], tuple(canon_fix_nothing(a) for a in c[2]))
    if k == "C":
        results = tuple(canon_fix_nothing(a) for a in c[2])
        return ("C", tuple(canon_fix_nothing(a) for a in c[1]), () if results == (N,) else results)
    return c


def canon_stub_type(s: tuple | None) -> tuple | None:
    return canon_fix_nothing(canon(s))


def show(c: tuple | None) -> str:
    if c is None:
        return "<none>"
    k = c[0]
    if k == "N":
        return "Nothing?"
    if k == "named":
        return c[1] + (f"<{', '.join(show(a) for a in c[2])}>" if c[2] else "")
    if k == "L":
        return "literal<" + ", ".join(sorted(repr(v[1]) + ":" + v[0] for v in c[1])) + ">"
    if k == "U":
        return "union{" + ", ".join(sorted(show(m) for m in c[1])) + "}"
    if k == "C":
        return f"({', '.join(show(a) for a in c[1])}) -> ({', '.join(show(a) for a in c[2])})"
    return "unknown"
