"""Shared analysis for the structure properties: run the pipeline on a struct package, index the output, and judge
C03 (every public declaration exactly once) and C04 (private declarations never leak; API publicity flags)."""

from __future__ import annotations

from typing import Any

from vf import gt
from vf.common import Discrepancy
from vf.outidx import StubSet, api_index
from vf.pipeline import run_case
from vf.structgen import Facts, is_private_name


def run_struct(case: dict) -> tuple[dict, dict, StubSet | None, Facts]:
    pkg = case["pkg"]
    files = gt.render_package(pkg)
    gt.check_compiles(files)
    r = run_case(files, case.get("options"), src=pkg["name"])
    res: dict[str, Any] = {"discs": [], "nontrivial": [], "evals": 0, "stats": [], "sample": None}
    facts = Facts(pkg)
    if r["status"] != "ok":
        res["discs"].append(Discrepancy.make("run_failed", pkg["name"], f"{r['exc']['bucket']}: {r['exc']['msg']}", [], bucket=r["exc"]["bucket"]))
        return res, r, None, facts
    ss = StubSet(r["stubs"])
    for rel, e in ss.errors.items():
        res["discs"].append(Discrepancy.make("stub_unparsable", rel, str(e), []))
    return res, r, ss, facts


def entry_tags(e: dict) -> list[str]:
    tags = list(e["decl"].get("tags", []))
    top_kind = e["kind"]
    if e["kind"] in {"enum", "variant"}:
        tags.append("decl:enum")
    _ = top_kind
    return tags


def occurrences(ss: StubSet, e: dict) -> list[tuple[str, Any]]:
    out = []
    kinds = {e["kind"]}
    for ch in e["chains"]:
        for rel, d in ss.find(*ch):
            if d.kind in kinds:
                out.append((rel, d))
    return out


def judge_c03(case: dict) -> dict:
    res, r, ss, facts = run_struct(case)
    if ss is None:
        return res
    discs = res["discs"]
    known_chains: set[tuple[str, ...]] = set()
    for e in facts.entries:
        for ch in e["chains"]:
            known_chains.add(ch)
    n_moved = 0
    for e in facts.entries:
        if not e["public"]:
            continue
        res["evals"] += 1
        el = ".".join([*e["module"], *e["owner"], e["name"]])
        occ = occurrences(ss, e)
        tags = entry_tags(e)
        if len(occ) == 0:
            discs.append(Discrepancy.make("public_declaration_missing", el, f"{e['kind']} not found under any of {e['chains']}", tags))
            continue
        if len(occ) > 1:
            discs.append(Discrepancy.make("public_declaration_duplicated", el, f"found {len(occ)} times: {[o[0] for o in occ]}", tags))
            continue
        rel, _d = occ[0]
        pm = ss.files[rel].python_module
        if pm not in e["containers"]:
            discs.append(Discrepancy.make("wrong_container", el, f"declared in stub of {pm!r} ({rel}); allowed {e['containers']}", tags))
        if not e["owner"] and pm != ".".join(e["module"]):
            n_moved += 1
    # nothing unknown is emitted: every stub declaration corresponds to a declaration of the package
    private_aliases = {st[3] for v in case["pkg"].get("inits", {}).values() for st in v if st[0] == "from" and st[3] and is_private_name(st[3])}
    for rel, sf in ss.files.items():
        for owner, d in sf.walk():
            ch = (*owner, d.python_name)
            if ch not in known_chains:
                tags = ["reexp:private_alias_of_public"] if ch[0] in private_aliases else []
                discs.append(Discrepancy.make("unknown_declaration", ".".join(ch), f"{d.kind} in {rel} matches no declaration of the package", tags))
    depth2 = any(len(e["owner"]) >= 2 for e in facts.entries if e["public"] and e["kind"] == "class")
    dup = any(a.get("dup") for m in case["pkg"]["modules"] for _o, d in gt.walk_decls(m["decls"]) if d["t"] == "func" and d["name"] == "__init__" for a in d.get("init_attrs", []))
    if n_moved or depth2 or dup:
        res["nontrivial"].append(f"moved={n_moved}|depth2={depth2}|dup={dup}|{len(facts.entries)}|{case['pkg']['name']}")
    res["stats"] += [f"moved_declarations={min(n_moved, 3)}", f"nested_depth2={depth2}", f"attr_in_body_and_init={dup}", f"reexport_forms={sorted({st[0] for v in case['pkg'].get('inits', {}).values() for st in v})}"]
    if n_moved and res["sample"] is None:
        res["sample"] = {"inits": case["pkg"]["inits"], "stub_files": sorted(r["stubs"])[:12]}
    return res


def judge_c04(case: dict) -> dict:
    res, r, ss, facts = run_struct(case)
    if ss is None:
        return res
    discs = res["discs"]
    api = api_index(r["api"])
    priv_in_pub = pub_in_priv = 0
    public_chains = {ch for e in facts.entries if e["public"] for ch in e["chains"]}
    for e in facts.entries:
        el = ".".join([*e["module"], *e["owner"], e["name"]])
        tags = entry_tags(e)
        if not e["public"]:
            res["evals"] += 1
            leaks = [(rel, d) for ch in e["chains"] if ch not in public_chains for rel, d in ss.find(*ch)]
            # also under its original name when it was exported under another one
            if leaks:
                discs.append(Discrepancy.make("private_declaration_leaked", el, f"{e['kind']} appears in {[x[0] for x in leaks]}", tags))
            if is_private_name(e["name"]) and e["owner"]:
                priv_in_pub += 1
            if not is_private_name(e["name"]):
                pub_in_priv += 1
        # API flags
        key = {"class": "classes", "fun": "functions", "attr": "attributes"}.get(e["kind"])
        if e["kind"] == "attr" and e["decl"]["t"] == "func":
            key = "functions"  # properties are functions in the API model
        if key:
            ent = api.get(key, {}).get(e["id"])
            res["evals"] += 1
            if ent is None:
                discs.append(Discrepancy.make("api_entry_missing", el, f"{key} has no id {e['id']}", tags))
            elif bool(ent.get("is_public")) != e["public"]:
                discs.append(Discrepancy.make("api_is_public_wrong", el, f"is_public={ent.get('is_public')} but the declaration is {'public' if e['public'] else 'private'} (re-exported={e['reexported']})", tags + ([] if not e["reexported"] else ["reexported"])))
    # whole-output scan: no declaration with a private Python name anywhere in the stubs, wherever it comes from (e.g. a
    # member copied from a private superclass into a public subclass), unless it is the public alias of a re-export
    flagged = {d["element"] for d in discs if d["kind"] == "private_declaration_leaked"}
    by_chain = {ch: e for e in facts.entries for ch in e["chains"]}
    n_inherit = sum(1 for m in case["pkg"]["modules"] for _o, d in gt.walk_decls(m["decls"]) if d["t"] == "class" and d.get("bases"))
    for rel, sf in ss.files.items():
        for owner, d in sf.walk():
            if not is_private_name(d.python_name):
                continue
            res["evals"] += 1
            ch = (*owner, d.python_name)
            e = by_chain.get(ch)
            el = ".".join([*e["module"], *e["owner"], e["name"]]) if e else f"{rel}: {'.'.join(ch)}"
            if el in flagged or ch in public_chains:
                continue
            tags = entry_tags(e) if e else (["decl:enum"] if d.kind in {"enum", "variant"} else [])
            discs.append(Discrepancy.make("private_declaration_leaked", el, f"{d.kind} with the private name {d.python_name!r} is declared in {rel} (owner {'.'.join(owner) or 'module'})", tags))
    res["stats"].append(f"classes_with_superclass_in_module={min(n_inherit, 3)}")
    if priv_in_pub and pub_in_priv:
        res["nontrivial"].append(f"{priv_in_pub}|{pub_in_priv}|{len(facts.entries)}|{case['pkg']['name']}")
    res["stats"] += [f"private_in_public_owner={min(priv_in_pub, 3)}", f"public_name_in_private_owner={min(pub_in_priv, 3)}"]
    if res["sample"] is None and priv_in_pub:
        e = next(x for x in facts.entries if not x["public"])
        res["sample"] = {"private_declaration": e["id"], "stub_files": sorted(r["stubs"])[:10]}
    return res
