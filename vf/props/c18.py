"""C18 — a module's stub depends only on what the module uses.

E4 pairs (A, B): a target module M (with the modules it references and the __init__ that re-exports one of its
declarations) plus unrelated modules U. B = A with U removed / renamed / internally changed / another U added, where U may
reuse M's class, function and module base names; and pairs where B permutes M's top-level declarations.
Oracle: the stub files that originate from M are byte-identical in A and B; under a permutation of M's declarations the
header (doc, package, set of imports) is identical and the multiset of top-level declaration blocks per kind is equal.
"""

from __future__ import annotations

import re

import copy
from collections import Counter
from typing import Any

from hypothesis import strategies as st

from vf import engine, gen, gt
from vf.common import Ctx, Discrepancy
from vf.outidx import StubSet
from vf.pipeline import run_case
from vf.props.c09 import norm_decl

MOD = "c18"


@st.composite
def _case(draw: Any, args: dict) -> dict:
    namer = gen.Namer()
    pk = gen.pkg_name(draw(st.integers(0, 99)))
    collide = draw(st.booleans())
    helper_cls = [namer.fresh("Help") for _ in range(2)]
    helper = gt.module([pk, "a", "helper"], [gt.klass(h, [gt.attr(namer.fresh("hx"), ["int"], None)]) for h in helper_cls] + [gt.enum(namer.fresh("HEnum"), ["A", "B"])])
    henum = helper["decls"][-1]["name"]
    own = ["Foo", "Bar", "Baz"]
    hr = [["cls", f"{pk}.a.helper:{h}"] for h in helper_cls]
    orf = [["cls", f"{pk}.a.target:{o}"] for o in own]

    def t() -> list:
        base = draw(st.sampled_from([*hr, *orf, ["enum", f"{pk}.a.helper:{henum}"], ["ext", "decimal", "Decimal"], ["int"], ["str"]]))
        return draw(st.sampled_from([base, ["list", base], ["opt", base], ["dict", ["str"], base]]))

    decls: list[dict] = []
    priv_base = gt.klass("_PrivBase", [gt.func("inherited_from_target_base", [gt.param("pb", "pos", t(), None)], ret=["int"], kind="method")])
    use_priv = draw(st.booleans())
    fwd = draw(st.booleans())
    for i, o in enumerate(own):
        members = [gt.attr(namer.fresh("at"), t(), None) for _ in range(draw(st.integers(0, 2)))]
        members.append(gt.func(namer.fresh("me"), [gt.param(namer.fresh("p"), "pos", t(), None)], ret=t(), kind="method"))
        bases = [draw(st.sampled_from(hr))] if draw(st.booleans()) else ([orf[i - 1]] if i and draw(st.booleans()) else [])
        if use_priv and i == 0:
            bases = [["cls", f"{pk}.a.target:_PrivBase"]]
        if fwd and i == 0:
            # a class attribute 'list[<class defined later in this module>]' (resolved through the package-wide alias table)
            members.insert(0, gt.attr(namer.fresh("fw"), ["list", orf[2]], None))
        decls.append(gt.klass(o, members, bases=bases, doc=f"Class {o}."))
    for _ in range(draw(st.integers(2, 4))):
        decls.append(gt.func(namer.fresh("fn"), [gt.param(namer.fresh("q"), "pos", t(), None) for _ in range(draw(st.integers(1, 2)))], ret=t(), doc="A function."))
    decls.append(gt.enum("Shade", ["DARK", "LIGHT"]))
    # (instantiating a class puts its short name into the analyser's package-wide table, through which forward 'list[X]' attributes are resolved)
    decls.append(gt.func("make_baz", [gt.param("n", "pos", ["int"], None)], ret=orf[2], body=["return Baz()"]))
    # a function without any parameter and a function over a type variable (module-level type variables are analyser state)
    if draw(st.booleans()):
        noparam = gt.func("version_info", [], ret=["str"], doc="No parameters.")
        if draw(st.booleans()):
            decls.insert(0, noparam)  # the first declaration of the module: analysed right after the previous module
        else:
            decls.append(noparam)
        decls.append(gt.func("identity_fn", [gt.param("x", "pos", ["tvar", "TF"], None)], ret=["tvar", "TF"]))
    if draw(st.booleans()):
        decls.append(gt.klass("GenericBox", [gt.func("get", [gt.param("d", "pos", ["tvar", "TG"], None)], ret=["tvar", "TG"], kind="method")], tparams=[{"name": "TG", "variance": "", "bound": None, "values": []}]))
        decls.append(gt.klass("PlainWithTypeVarMethod", [gt.func("ident", [gt.param("v", "pos", ["tvar", "TG"], None)], ret=["tvar", "TG"], kind="method")]))
    moved = namer.fresh("Moved")
    decls.append(gt.klass(moved, [gt.attr(namer.fresh("mx"), t(), None)]))
    if use_priv:
        decls.insert(0, priv_base)
    target = gt.module([pk, "a", "target"], decls, doc=draw(st.sampled_from(["Target module.", None])))
    # a sibling private module whose class (sorting before the target's moved class) is re-exported by the same __init__
    def alpha(changed: bool) -> dict:
        ptypes = [["float"], ["str"]] if changed else [["ext", "pathlib", "PurePath"], hr[0]]
        return gt.module([pk, "a", "_alpha"], [gt.klass("Alpha", [gt.func("measure", [gt.param("shape", "pos", ptypes[1], None), gt.param("where", "pos", ptypes[0], None)], ret=["int"], kind="method")]), gt.func("alpha_helper", [gt.param("x", "pos", ptypes[0], None)], ret=["int"])])

    inits = {f"{pk}/a": [["from", "._alpha", "Alpha", None], ["from", "._alpha", "alpha_helper", None], ["from", ".target", moved, None]]}
    # unrelated modules: may reuse the target's class / function / module names
    def unrelated(path: list[str], reuse: bool, variant: int) -> dict:
        names_c = (["Foo", "Bar", "Baz"] if reuse else [namer.fresh("Other"), namer.fresh("Other")])
        # (a method: its 'self' puts the class into the analyser's package-wide table of short names)
        ds: list[dict] = [gt.klass(n, [gt.attr(f"ux{variant}", ["str"], None), gt.func("touch", [], ret=["int"], kind="method")]) for n in names_c]
        fname = decls[len(own)]["name"] if reuse else namer.fresh("ufn")
        ds.append(gt.func(fname, [gt.param("z", "pos", ["cls", f"{'.'.join(path)}:{names_c[0]}"], None)], ret=["int"]))
        ds.append(gt.func(namer.fresh("uses_foreign"), [gt.param("fr", "pos", ["ext", "fractions", "Fraction"], None), gt.param("oc", "pos", ["cls", f"{'.'.join(path)}:{names_c[1]}"], None)], ret=["ext", "collections", "OrderedDict"]))
        if reuse:
            ds.append(gt.func("make_baz_unrelated", [gt.param("n", "pos", ["int"], None)], ret=["cls", f"{'.'.join(path)}:Baz"], body=["return Baz()"]))
            ds.append(gt.enum("Shade", ["X"]))
            ds.append(gt.klass(helper_cls[0], []))
            ds.append(gt.klass("_PrivBase", [gt.func("inherited_from_unrelated_base", [], ret=["str"], kind="method")]))
            ds.append(gt.klass(namer.fresh("UsesPriv"), [], bases=[["cls", f"{'.'.join(path)}:_PrivBase"]]))
        if variant:
            ds.append(gt.func(f"extra_{variant}", [], ret=["str"], doc="changed"))
        if generic_tail:
            ds.append(gt.func(namer.fresh("generic_tail"), [gt.param("x", "pos", ["tvar", "TU"], None)], ret=["tvar", "TU"]))
        return gt.module(path, ds, doc=f"Unrelated module {variant}.")

    generic_tail = draw(st.booleans())  # the unrelated modules end with a function over a type variable
    # (a sub-package as deep as the target module: its __init__ is then at least as deep as the declarations it could capture)
    u_path = [pk, "b", "deep", draw(st.sampled_from(["things", "target", "target", "helper"]))]
    u = unrelated(u_path, collide, 0)
    base_mods = [helper, target, alpha(False)]
    # the unrelated package re-exports its own declarations through relative imports (its private base under a public alias)
    inits_u = dict(inits)
    if draw(st.booleans()):
        own_names = [d["name"] for d in u["decls"] if d["t"] in {"class", "func"}]
        # core: only names that the target neither declares nor references (re-exports are matched by name: a public name
        # the target also uses is taken from the unrelated package - open finding, extended feature)
        target_names = {d["name"] for d in decls} | set(helper_cls) | {henum}
        overlap_ok = draw(st.integers(0, 3)) == 0
        own_names = [n for n in own_names if n.startswith("_") or overlap_ok or n not in target_names]
        stmts = [["from", "." + u_path[-1], n, ("PubU" + n.strip("_")) if n.startswith("_") else None] for n in own_names if n.startswith("_") or draw(st.booleans())]
        if stmts:
            inits_u[f"{pk}/b/deep"] = stmts
    variants: list[dict] = []
    variants.append({"name": "U removed", "modules": base_mods, "inits": inits})
    variants.append({"name": "U renamed", "modules": [*base_mods, {**copy.deepcopy(u), "path": [pk, "b", "renamed_mod"]}], "inits": inits})
    variants.append({"name": "U changed inside", "modules": [*base_mods, unrelated(u_path, collide, 1)], "inits": inits_u})
    variants.append({"name": "second U added", "modules": [*base_mods, u, unrelated([pk, "c", "things"], collide, 2)], "inits": inits_u})
    variants.append({"name": "re-exports of the unrelated package removed", "modules": [*base_mods, u], "inits": inits})
    variants.append({"name": "U placed before the target's package", "modules": [{**copy.deepcopy(u), "path": [pk, "_0first", u_path[-1]]}, *base_mods], "inits": inits})
    variants.append({"name": "U placed after everything", "modules": [*base_mods, {**copy.deepcopy(u), "path": [pk, "zz_last", u_path[-1]]}], "inits": inits})
    variants.append({"name": "U placed right before the target (same package)", "modules": [helper, {**copy.deepcopy(u), "path": [pk, "a", "s_unrelated"]}, target, alpha(False)], "inits": inits})
    variants.append({"name": "sibling module re-exported by the same __init__ changed inside", "modules": [helper, target, alpha(True), u], "inits": inits})
    perm = draw(st.permutations(range(len(decls))))
    variants.append({"name": "target declarations permuted", "modules": [helper, {**target, "decls": [decls[i] for i in perm]}, alpha(False), u], "inits": inits, "permuted": True})
    # renamed module with class refs inside must be re-pointed
    for v in variants:
        for m in v["modules"]:
            if m["path"][-1] in {"renamed_mod", "s_unrelated"} or m["path"][1] in {"_0first", "zz_last"}:
                old = ".".join(u_path)
                new = ".".join(m["path"])
                for d in m["decls"]:
                    if d["t"] == "func":
                        if d.get("ret") and d["ret"][0] == "cls":
                            d["ret"] = ["cls", d["ret"][1].replace(old + ":", new + ":")]
                        for p in d["params"]:
                            if p["ann"] and p["ann"][0] == "cls":
                                p["ann"] = ["cls", p["ann"][1].replace(old + ":", new + ":")]
                    if d["t"] == "class":
                        d["bases"] = [["cls", b[1].replace(old + ":", new + ":")] if b[0] == "cls" else b for b in d["bases"]]
    return {"pkgname": pk, "base": {"modules": [*base_mods, u], "inits": inits_u}, "variants": variants, "moved": moved, "collide": collide, "options": {"nc": draw(st.booleans())}}


def strategy(args: dict) -> st.SearchStrategy:
    return _case(args)


def target_files(stubs: dict[str, str], pk: str, moved: str) -> dict[str, str]:
    return {k: v for k, v in stubs.items() if k == f"{pk}/a/target/target.sdsstub" or k == f"{pk}/a/{moved}.sdsstub"}


def judge(case: dict) -> dict:
    pk = case["pkgname"]
    res: dict[str, Any] = {"discs": [], "nontrivial": [], "evals": 0, "stats": [], "sample": None}
    discs = res["discs"]
    tags = ["coll:short_name_other_module"] if case.get("collide") else []

    tmod = next(m for m in case["base"]["modules"] if m["path"][-1] == "target" and m["path"][-2] == "a")
    own_refs = {f"{pk}.a.target:{d['name']}" for d in tmod["decls"] if d["t"] in {"class", "enum"}}
    list_attr_own = any(
        mem["t"] == "attr" and mem["ann"] and mem["ann"][0] == "list" and mem["ann"][1][0] in {"cls", "enum"} and mem["ann"][1][1] in own_refs
        for d in tmod["decls"] if d["t"] == "class" for mem in d["members"]
    )
    fwd_classes = {
        d["name"]
        for d in tmod["decls"]
        if d["t"] == "class"
        and any(mem["t"] == "attr" and mem["ann"] and mem["ann"][0] == "list" and mem["ann"][1][0] in {"cls", "enum"} and mem["ann"][1][1] in own_refs for mem in d["members"])
    }
    _ = list_attr_own
    # open finding: a public name that the unrelated package re-exports (relative import of its own module) and that the target
    # declares or references too is taken from the unrelated package (re-exports are matched by name)
    helper_names = {d["name"] for m in case["base"]["modules"] if m["path"][-2:] == ["a", "helper"] for d in m["decls"]}
    target_names = {d["name"] for d in tmod["decls"]} | helper_names
    overlap = {st_[2] for key, stmts_ in case["base"]["inits"].items() if key.startswith(f"{pk}/b") for st_ in stmts_ if not st_[2].startswith("_")} & target_names

    def otags(a_text: str, b_text: str) -> list[str]:
        if not overlap:
            return []
        la, lb = a_text.split("\n"), b_text.split("\n")
        diff = [x for x in la if x not in lb] + [x for x in lb if x not in la]
        words = set(re.findall(r"[A-Za-z_][A-Za-z0-9_]*", " ".join(diff)))
        return ["reexp:unrelated_same_name"] if any(f"{pk}.b" in x for x in diff) or (words & overlap) else []

    def run(v: dict) -> dict | None:
        files = gt.render_package(gt.package(pk, v["modules"], v["inits"]))
        gt.check_compiles(files)
        r = run_case(files, case["options"], src=pk)
        res["evals"] += 1
        if r["status"] != "ok":
            discs.append(Discrepancy.make("run_failed", v.get("name", "base"), f"{r['exc']['bucket']}: {r['exc']['msg'][:200]}", tags, bucket=r["exc"]["bucket"]))
            return None
        return r

    rb = run(case["base"])
    if rb is None:
        return res
    base = target_files(rb["stubs"], pk, case["moved"])
    if len(base) != 2:
        discs.append(Discrepancy.make("target_stubs_missing", pk, f"expected module stub and re-export stub of the target, found {sorted(base)}", tags))
        return res
    for v in case["variants"]:
        rv = run(v)
        if rv is None:
            continue
        got = target_files(rv["stubs"], pk, case["moved"])
        res["stats"].append("variant:" + v["name"])
        if v.get("permuted"):
            for rel in base:
                if rel not in got:
                    discs.append(Discrepancy.make("target_stub_missing_after_permutation", rel, v["name"], tags))
                    continue
                a = StubSet({rel: base[rel]}).files.get(rel)
                b = StubSet({rel: got[rel]}).files.get(rel)
                if a is None or b is None:
                    discs.append(Discrepancy.make("stub_unparsable", rel, v["name"], tags))
                    continue
                if (a.doc, a.package, a.annotations, sorted(a.imports)) != (b.doc, b.package, b.annotations, sorted(b.imports)):
                    # the re-export stub of a class with a forward list attribute imports the element class only when it
                    # was resolved (the same open finding seen in the header): only then, and only for those names
                    htags = list(tags)
                    diff_names = {i[1] for i in set(a.imports) ^ set(b.imports)}
                    fwd_here = [d for d in tmod["decls"] if d["name"] in fwd_classes and d["name"] in {m.python_name for m in a.members}]
                    fwd_elems = {mem["ann"][1][1].split(":")[-1] for d in fwd_here for mem in d["members"] if mem["t"] == "attr" and mem["ann"] and mem["ann"][0] == "list" and mem["ann"][1][0] in {"cls", "enum"}}
                    if (a.doc, a.package, a.annotations) == (b.doc, b.package, b.annotations) and diff_names and diff_names <= fwd_elems:
                        htags.append("attr:list_of_class_defined_later")
                    discs.append(Discrepancy.make("header_changes_with_declaration_order", rel, f"imports {sorted(a.imports)} vs {sorted(b.imports)}", htags + otags(base[rel], got[rel])))
                ca = Counter(repr(norm_decl(d, False)) for d in a.members)
                cb = Counter(repr(norm_decl(d, False)) for d in b.members)
                if ca != cb:
                    # name the declarations that changed; the open finding covers only classes with a forward list attribute
                    da = {d.python_name: repr(norm_decl(d, False)) for d in a.members}
                    db = {d.python_name: repr(norm_decl(d, False)) for d in b.members}
                    for nm in sorted(set(da) | set(db)):
                        if da.get(nm) != db.get(nm):
                            dtags = tags + (["attr:list_of_class_defined_later"] if nm in fwd_classes else []) + (["tvar:method_typevar_after_generic_class"] if nm == "PlainWithTypeVarMethod" else [])
                            x, y = da.get(nm, "<absent>"), db.get(nm, "<absent>")
                            i = next((k for k in range(min(len(x), len(y))) if x[k] != y[k]), 0)
                            discs.append(Discrepancy.make("declaration_changes_with_declaration_order", f"{rel}: {nm}", f"...{x[max(0, i - 60) : i + 60]} vs ...{y[max(0, i - 60) : i + 60]}", dtags + otags(base[rel], got[rel])))
                for kind in ("fun", "class", "enum"):
                    oa = [d.python_name for d in a.members if d.kind == kind]
                    ob = [d.python_name for d in b.members if d.kind == kind]
                    if sorted(oa) == sorted(ob) and oa != ob:
                        res["stats"].append("permutation_visible_in_stub")
            continue
        for rel, text in base.items():
            if got.get(rel) != text:
                a = text.split("\n")
                b = (got.get(rel) or "<absent>").split("\n")
                line = next((f"{x!r} vs {y!r}" for x, y in zip(a, b) if x != y), f"{len(a)} vs {len(b)} lines")
                discs.append(Discrepancy.make("target_stub_depends_on_unrelated_module", f"{rel} [{v['name']}]", line[:300], tags + otags(text, got.get(rel) or "")))
    if case.get("collide"):
        res["nontrivial"].append(f"{pk}|{case['moved']}|{case['options']}")
    res["stats"].append(f"unrelated_module_reuses_names={bool(case.get('collide'))}")
    if res["sample"] is None:
        res["sample"] = {"target_stub": base[f"{pk}/a/target/target.sdsstub"][:500], "variants": [v["name"] for v in case["variants"]]}
    return res


def candidates(case: dict) -> list[dict]:
    out = []
    for i in range(len(case["variants"])):
        if len(case["variants"]) > 1:
            out.append({**case, "variants": case["variants"][:i] + case["variants"][i + 1 :]})
    return out


def run(ctx: Ctx) -> None:
    ctx.rule = (
        "a target module (3 classes Foo/Bar/Baz with attributes, methods and bases, 2-4 functions, an enum, one class moved "
        "by its package's __init__) referencing a helper module and a foreign class, plus an unrelated module that in half "
        "of the cases reuses the target's class names, a function name, the enum name, a helper class name and possibly the "
        "module base name; six variants per case (U removed, renamed, changed inside, second U added, U in a package sorted "
        "before the target's, target declarations permuted). evaluations = pipeline runs; non-trivial = case whose unrelated "
        "module shares short names with what the target defines or references."
    )
    ctx.assumptions = ["'the stub generated for a module' = its module stub plus the re-export stubs of its own declarations"]
    failures = engine.search(ctx, MOD, shards=ctx.n(16, 96), examples=ctx.n(3, 12))
    engine.report_failures(ctx, MOD, failures)
    engine.replay_known(ctx, MOD)


def replay(ctx: Ctx, path: str) -> int:
    return engine.replay_cli(ctx, MOD, path)
