"""C12 — the API JSON is a complete, internally consistent inventory.

Domain: the structure generator (private declarations, nested classes, constructors, enums, re-exports) plus a module
of classes with multiple and aliased superclasses. Oracle: (a) internal consistency of the JSON alone (sorted, unique,
id shape, every reference resolves, every non-module entry owned exactly once); (b) completeness and flags against the
ground-truth inventory.
"""

from __future__ import annotations

from collections import Counter
from typing import Any

from hypothesis import strategies as st

from vf import engine, gen, gt, structgen
from vf.common import Ctx, Discrepancy
from vf.pipeline import run_case

MOD = "c12"
LISTS = ["modules", "classes", "functions", "results", "enums", "enum_instances", "attributes", "parameters"]


@st.composite
def _case(draw: Any, args: dict) -> dict:
    pkgname = gen.pkg_name(draw(st.integers(0, 99)))
    pkg = draw(structgen.struct_package(pkgname, priv_bias=3))
    # a module with superclass lists: same module, other module, 'import mod as m; class A(m.B)', 'from x import B as C'
    tops = [(m, d) for m in pkg["modules"] for d in m["decls"] if d["t"] == "class"]
    hier: list[dict] = []
    pre: list[str] = []
    expected: dict[str, list[str]] = {}
    if tops:
        for i in range(draw(st.integers(1, 4))):
            k = draw(st.integers(1, min(3, len(tops))))
            picks = draw(st.permutations(range(len(tops))))[:k]
            bases = []
            exp = []
            for j in picks:
                m, d = tops[j]
                q = ".".join(m["path"]) + "." + d["name"]
                form = draw(st.sampled_from(["from", "from_alias", "module_alias", "module"]))
                if form == "from":
                    bases.append(["raw", d["name"], [".".join(m["path"]), d["name"]]])
                elif form == "from_alias":
                    al = f"Al{i}_{j}"
                    pre.append(f"from {'.'.join(m['path'])} import {d['name']} as {al}")
                    bases.append(["raw", al])
                elif form == "module_alias":
                    al = f"mo{i}_{j}"
                    pre.append(f"import {'.'.join(m['path'])} as {al}")
                    bases.append(["raw", f"{al}.{d['name']}"])
                else:
                    pre.append(f"import {'.'.join(m['path'])}")
                    bases.append(["raw", f"{'.'.join(m['path'])}.{d['name']}"])
                exp.append(q)
            if i > 0 and draw(st.booleans()):
                bases.append(["raw", f"Der{i - 1}"])
                exp.append(f"{pkgname}.hiermod.Der{i - 1}")
            name = f"Der{i}"
            hier.append(gt.klass(name, [gt.attr(f"dx{i}", ["int"], None)], bases=bases))
            expected[f"{pkgname}/hiermod/{name}"] = exp
        pkg["modules"].append(gt.module([pkgname, "hiermod"], hier, pre=sorted(set(pre))))
    return {"pkg": pkg, "options": {"nc": draw(st.booleans()), "testrun": draw(st.booleans())}, "superclasses": expected}


def strategy(args: dict) -> st.SearchStrategy:
    return _case(args)


def consistency(api: dict) -> list[Discrepancy]:
    out: list[Discrepancy] = []
    if api.get("schemaVersion") != 1:
        out.append(Discrepancy.make("schema_version", "schemaVersion", f"{api.get('schemaVersion')!r} != 1", []))
    idx: dict[str, dict[str, dict]] = {}
    for key in LISTS:
        lst = api.get(key)
        if not isinstance(lst, list):
            out.append(Discrepancy.make("list_missing", key, "top-level list missing", []))
            lst = []
        ids = [e.get("id") for e in lst]
        if ids != sorted(ids):
            out.append(Discrepancy.make("list_not_sorted", key, f"ids not sorted: {ids[:6]}...", []))
        dup = [i for i, c in Counter(ids).items() if c > 1]
        if dup:
            out.append(Discrepancy.make("duplicate_id", key, f"{dup[:5]}", []))
        idx[key] = {e.get("id"): e for e in lst}
    refs: Counter = Counter()

    def ref(kind: str, rid: Any, frm: str) -> None:
        if rid not in idx.get(kind, {}):
            out.append(Discrepancy.make("dangling_reference", f"{frm} -> {rid}", f"no entry with this id in {kind}", []))
        refs[(kind, rid)] += 1

    for mid, m in idx["modules"].items():
        for c in m.get("classes", []):
            ref("classes", c, mid)
        for f in m.get("functions", []):
            ref("functions", f, mid)
        for e in m.get("enums", []):
            ref("enums", e, mid)
    for cid, c in idx["classes"].items():
        for a in c.get("attributes", []):
            ref("attributes", a, cid)
        for f in c.get("methods", []):
            ref("functions", f, cid)
        for k in c.get("classes", []):
            ref("classes", k, cid)
        if c.get("constructor") is not None:
            ref("functions", c["constructor"].get("id"), cid)
    for fid, f in idx["functions"].items():
        for r in f.get("results", []):
            ref("results", r, fid)
        for p in f.get("parameters", []):
            ref("parameters", p, fid)
    for eid, e in idx["enums"].items():
        for i in e.get("instances", []):
            ref("enum_instances", i, eid)
    owners = set(idx["modules"]) | set(idx["classes"]) | set(idx["functions"]) | set(idx["enums"])
    for key in LISTS[1:]:
        for eid, e in idx[key].items():
            n = refs[(key, eid)]
            if n != 1:
                out.append(Discrepancy.make("owner_count", f"{key}:{eid}", f"referenced by {n} owners (expected exactly 1)", []))
            owner, _, name = str(eid).rpartition("/")
            if owner not in owners:
                out.append(Discrepancy.make("id_shape", f"{key}:{eid}", f"'{owner}' is not the id of an existing module/class/function/enum", []))
            elif e.get("name") != name:
                out.append(Discrepancy.make("id_shape", f"{key}:{eid}", f"last id segment {name!r} != name {e.get('name')!r}", []))
    return out


def inventory(pkg: dict) -> tuple[Counter, dict]:
    """Expected multiset of (kind, id) and per-id flags, from the ground truth (private declarations included)."""
    inv: Counter = Counter()
    flags: dict[str, dict] = {}
    pkgs: set[tuple[str, ...]] = set()
    for m in pkg["modules"]:
        mid = "/".join(m["path"])
        inv[("modules", mid)] += 1
        for i in range(1, len(m["path"])):
            pkgs.add(tuple(m["path"][:i]))
        for owner, d in gt.walk_decls(m["decls"]):
            oid = "/".join([mid, *owner])
            if d["t"] == "class":
                inv[("classes", f"{oid}/{d['name']}")] += 1
                seen = {x["name"] for x in d["members"] if x["t"] == "attr"}
                if d.get("ctor"):
                    for a in d["ctor"].get("init_attrs", []):
                        if a["name"] not in seen:
                            seen.add(a["name"])
                            aid = f"{oid}/{d['name']}/{a['name']}"
                            inv[("attributes", aid)] += 1
                            flags[aid] = {"is_static": False}
            elif d["t"] == "func":
                fid = f"{oid}/{d['name']}"
                inv[("functions", fid)] += 1
                flags[fid] = {"is_static": d["kind"] == "static", "is_class_method": d["kind"] == "classmethod", "is_property": d["kind"] == "property"}
                if d["kind"] in {"method", "property", "classmethod"} and d.get("recv"):
                    inv[("parameters", f"{fid}/{d['recv']}")] += 1
                for p in d["params"]:
                    inv[("parameters", f"{fid}/{p['name']}")] += 1
                if d["name"] != "__init__" and d["ret"] is not None and d["ret"] != ["none"]:
                    inv[("results", f"{fid}/result_1")] += 1
            elif d["t"] == "attr":
                aid = f"{oid}/{d['name']}"
                inv[("attributes", aid)] += 1
                flags[aid] = {"is_static": True}
            elif d["t"] == "enum":
                inv[("enums", f"{oid}/{d['name']}")] += 1
                for v in d["variants"]:
                    inv[("enum_instances", f"{oid}/{d['name']}/{v}")] += 1
    for p in pkgs:
        inv[("modules", "/".join(p))] += 1
    return inv, flags


def judge(case: dict) -> dict:
    pkg = case["pkg"]
    files = gt.render_package(pkg)
    gt.check_compiles(files)
    r = run_case(files, case.get("options"), src=pkg["name"])
    discs: list[Discrepancy] = []
    res: dict[str, Any] = {"discs": discs, "nontrivial": [], "evals": 0, "stats": [], "sample": None}
    if r["status"] != "ok":
        discs.append(Discrepancy.make("run_failed", pkg["name"], f"{r['exc']['bucket']}: {r['exc']['msg']}", [], bucket=r["exc"]["bucket"]))
        return res
    api = r["api"]
    if api is None:
        discs.append(Discrepancy.make("api_not_json", pkg["name"], str(r.get("api_error")), []))
        return res
    discs += consistency(api)
    inv, flags = inventory(pkg)
    got: Counter = Counter()
    by_id: dict[tuple[str, str], dict] = {}
    for key in LISTS:
        for e in api.get(key, []):
            got[(key, e.get("id"))] += 1
            by_id[(key, e.get("id"))] = e
    res["evals"] = sum(got.values())
    for k in sorted(set(inv) | set(got)):
        if inv[k] != got[k]:
            kind = "inventory_missing" if got[k] < inv[k] else "inventory_extra"
            # results of un-annotated / None functions and docstring completions are C07's business: only 'missing' counts
            if k[0] == "results" and kind == "inventory_extra":
                continue
            discs.append(Discrepancy.make(kind, f"{k[0]}:{k[1]}", f"expected {inv[k]} entries, API JSON has {got[k]}", []))
    for eid, fl in flags.items():
        key = "functions" if "is_property" in fl else "attributes"
        e = by_id.get((key, eid))
        if e is None:
            continue
        for name, val in fl.items():
            if bool(e.get(name)) != val:
                discs.append(Discrepancy.make("flag_wrong", f"{key}:{eid}", f"{name}={e.get(name)} but the source says {val}", []))
    for cid, exp in case.get("superclasses", {}).items():
        e = by_id.get(("classes", cid))
        if e is not None and e.get("superclasses") != exp:
            discs.append(Discrepancy.make("superclasses_wrong", f"classes:{cid}", f"{e.get('superclasses')} != expected {exp}", []))
    nested = any(len(o) >= 1 and d["t"] == "class" for m in pkg["modules"] for o, d in gt.walk_decls(m["decls"]))
    ctor_attrs = any(d["t"] == "func" and d["name"] == "__init__" and d.get("init_attrs") for m in pkg["modules"] for _o, d in gt.walk_decls(m["decls"]))
    if nested and ctor_attrs:
        res["nontrivial"].append(f"{pkg['name']}|{sum(got.values())}|{len(case.get('superclasses', {}))}")
    res["stats"] += [f"nested_class={nested}", f"ctor_with_attributes={ctor_attrs}", f"derived_classes={len(case.get('superclasses', {}))}"]
    if res["sample"] is None:
        res["sample"] = {"entries_per_list": {k: len(api.get(k, [])) for k in LISTS}, "superclasses": dict(list(case.get("superclasses", {}).items())[:2])}
    return res


def run(ctx: Ctx) -> None:
    ctx.rule = (
        "structure-generator packages (private and public declarations, nested classes, constructors with instance "
        "attributes, properties / static / class methods, enums, re-exports) plus a module of classes deriving from 1-3 "
        "classes of the package through four import forms (from-import, aliased from-import, module alias, dotted module). "
        "evaluations = API JSON entries judged; non-trivial = package with a nested class and a constructor with attributes."
    )
    ctx.assumptions = [
        "the number of result entries is only checked from below (inferred / docstring results are C07's business)",
        "each reference is counted from the top-level entries; the inline constructor copy inside a class entry counts once for the constructor's id",
    ]
    failures = engine.search(ctx, MOD, shards=ctx.n(16, 96), examples=ctx.n(24, 50))
    engine.report_failures(ctx, MOD, failures)
    engine.replay_known(ctx, MOD)


def replay(ctx: Ctx, path: str) -> int:
    return engine.replay_cli(ctx, MOD, path)
