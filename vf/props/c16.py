"""C16 — stub generation neither mutates the API model nor depends on earlier generations.

E3: a Hypothesis RuleBasedStateMachine owns the history of calls on ONE API object obtained from a generated package:
    generate(nc) with a fresh generator | generate_again(nc) on the generator used before | serialise()
  invariant after every step: canonical(api.to_dict()) is what it was before the first step; every generation yields
  the texts of the first generation with the same naming setting; inlined copies of one private-base method are
  identical in every subclass that shows them.
E4: the console script is run twice into one output directory; the tree after run 2 equals the tree after run 1.
A failing history is replayed without Hypothesis from (package, list of steps).
"""

from __future__ import annotations

import json
import traceback
from pathlib import Path
from typing import Any

import hypothesis
from hypothesis import HealthCheck, Phase, settings
from hypothesis import strategies as st
from hypothesis.stateful import RuleBasedStateMachine, initialize, invariant, rule, run_state_machine_as_test

from vf import engine, gen, gt, sdsparse
from vf.common import Ctx, Discrepancy, HarnessError, Known, derive_seed
from vf.pipeline import run_cli, write_files

MOD = "c16"
LIT_TYPES = [
    ["opt", ["literal", ["a"]]], ["pipenone", ["literal", ["x", "y"]]], ["union", [["literal", [1]], ["literal", ["b"]]]], ["literal", ["solo"]],
    ["opt", ["literal", [1, 2]]], ["union", [["literal", ["k"]], ["none"], ["int"]]], ["opt", ["int"]], ["list", ["opt", ["literal", ["q"]]]],
]  # fmt: skip


FOREIGN_SAME_NAME = [
    ["ext", "http.client", "HTTPConnection"], ["ext", "http.client", "HTTPResponse"], ["ext", "xmlrpc.client", "ServerProxy"], ["ext", "xmlrpc.client", "Transport"],
    ["ext", "logging.handlers", "MemoryHandler"], ["ext", "wsgiref.handlers", "BaseHandler"], ["ext", "decimal", "Context"],
]  # fmt: skip


@st.composite
def packages(draw: Any) -> dict:
    namer = gen.Namer()
    pk = gen.pkg_name(draw(st.integers(0, 99)))
    impl: list[dict] = []
    pub: list[dict] = []
    other: list[dict] = []
    inits: list[list] = []
    # private bases inherited by several public subclasses
    for _ in range(draw(st.integers(1, 2))):
        base = "_" + namer.fresh("Base")
        methods = []
        for _ in range(draw(st.integers(1, 3))):
            ptypes = [*LIT_TYPES, ["ext", "decimal", "Decimal"], ["cls", f"{pk}.shapes:Shape"], ["list", ["ext", "fractions", "Fraction"]]]
            params = [gt.param(namer.fresh("p"), "pos", draw(st.sampled_from(ptypes)), None) for _ in range(draw(st.integers(1, 2)))]
            if draw(st.booleans()):
                params.append(gt.param(namer.fresh("args"), "vararg", draw(st.sampled_from([["int"], ["tuple", [["int"], ["str"]]], None])), None))
            methods.append(gt.func(namer.fresh("inh"), params, ret=draw(st.sampled_from(LIT_TYPES)), kind="method"))
        pub.append(gt.klass(base, methods))
        for _ in range(draw(st.integers(2, 3))):
            sub = gt.klass(namer.fresh("Sub"), [gt.func(namer.fresh("own"), [], ret=["int"], kind="method")], bases=[["cls", f"{pk}.pubmod:{base}"]])
            # subclasses of one private base may live in different modules
            (other if draw(st.booleans()) else pub).append(sub)
    # declarations of a private module re-exported with and without alias
    for _ in range(draw(st.integers(1, 3))):
        if draw(st.booleans()):
            nm = namer.fresh("Orig")
            impl.append(gt.klass(nm, [gt.attr(namer.fresh("at"), draw(st.sampled_from(LIT_TYPES)), None)]))
        else:
            nm = namer.fresh("orig_fn")
            impl.append(gt.func(nm, [gt.param(namer.fresh("q"), "pos", draw(st.sampled_from(LIT_TYPES)), None), gt.param(namer.fresh("rest"), "vararg", ["int"], None)], ret=["ext", "decimal", "Decimal"]))
        alias = namer.fresh("Alias" if nm[0].isupper() else "alias_fn") if draw(st.booleans()) else None
        inits.append(["from", "._impl", nm, alias])
    for _ in range(draw(st.integers(1, 3))):
        pub.append(gt.func(namer.fresh("fn"), [gt.param(namer.fresh("a"), "pos", draw(st.sampled_from(LIT_TYPES)), None), gt.param(namer.fresh("va"), "vararg", draw(st.sampled_from([["int"], None])), None)], ret=draw(st.sampled_from([["ext", "fractions", "Fraction"], *LIT_TYPES]))))
    # classes of other libraries: several of one module, and modules of different libraries with the same last name
    # (http.client / xmlrpc.client, logging.handlers / wsgiref.handlers) - their placeholder stubs share a base name
    if draw(st.booleans()):
        foreign = draw(st.lists(st.sampled_from(FOREIGN_SAME_NAME), min_size=2, max_size=4, unique_by=lambda f: f[2]))
        pub.append(gt.func(namer.fresh("net"), [gt.param(namer.fresh("c"), "pos", f, None) for f in foreign], ret=["none"]))
    mods = [gt.module([pk, "pubmod"], pub), gt.module([pk, "_impl"], impl), gt.module([pk, "shapes"], [gt.klass("Shape", [gt.attr("sides", ["int"], None)])])]
    if other:
        mods.append(gt.module([pk, "othermod"], other))
    # NumPy docstrings with an Examples section (the examples are a list inside the API model) on functions and on the methods
    # of the private bases, analysed with the matching docstring style
    docstyle = draw(st.sampled_from(["PLAINTEXT", "NUMPYDOC", "NUMPYDOC"]))
    if docstyle == "NUMPYDOC":
        n_doc = 0
        for m in mods:
            for _o, d in gt.walk_decls(m["decls"]):
                if d["t"] == "func" and d["name"] != "__init__" and draw(st.booleans()):
                    n_doc += 1
                    d["doc"] = f"Summary {n_doc}.\n\nExamples\n--------\n>>> value_{n_doc} = 1\n>>> value_{n_doc}\n1\n\n>>> other_{n_doc}(\n...     2)\n"
    return gt.package(pk, mods, {pk: inits}, docstyle=docstyle)


STEPS = st.sampled_from(["gen:0", "gen:1", "again:0", "again:1", "serialise"])


class Runner:
    """Executes steps on one API object and checks the invariants; shared by the state machine and the replay."""

    def __init__(self, pkg: dict) -> None:
        import tempfile

        from safeds_stubgen.api_analyzer import get_api

        from vf.pipeline import _patch_metadata

        _patch_metadata()
        self.pkg = pkg
        self.base = Path(tempfile.mkdtemp(prefix="vfc16_"))
        files = gt.render_package(pkg)
        gt.check_compiles(files)
        write_files(self.base / "s", files)
        import os

        cwd = os.getcwd()
        (self.base / "cwd").mkdir()
        os.chdir(self.base / "cwd")
        try:
            from safeds_stubgen.docstring_parsing import DocstringStyle

            self.api = get_api(self.base / "s" / pkg["name"], docstring_style=DocstringStyle[pkg.get("docstyle", "PLAINTEXT")])
        finally:
            os.chdir(cwd)
        self.initial = self.canonical()
        self.first: dict[bool, dict] = {}
        self.generators: dict[bool, Any] = {}
        self.history: list[str] = []
        self.discs: list[Discrepancy] = []

    def close(self) -> None:
        import shutil

        shutil.rmtree(self.base, ignore_errors=True)

    def canonical(self) -> str:
        def default(o: Any) -> Any:
            if isinstance(o, (set, frozenset)):
                return sorted(o, key=repr)
            return repr(o)

        return json.dumps(self.api.to_dict(), sort_keys=True, default=default)

    def _generate(self, generator: Any) -> dict:
        from safeds_stubgen.stubs_generator import generate_stub_data

        data = generate_stub_data(stubs_generator=generator, out_path=Path("/vfout"))
        out: dict[str, set[str]] = {}
        for d, name, text, is_pkg in data:
            out.setdefault(f"{d}|{name}|{is_pkg}", set()).add(text)
        out["<classes_outside_package>"] = {json.dumps(sorted(generator.classes_outside_package))}
        return out

    def step(self, s: str) -> None:
        from safeds_stubgen.stubs_generator import StubsStringGenerator

        self.history.append(s)
        kind, _, arg = s.partition(":")
        if kind == "serialise":
            self.api.to_dict()
        else:
            nc = arg == "1"
            if kind == "gen" or nc not in self.generators:
                self.generators[nc] = StubsStringGenerator(api=self.api, convert_identifiers=nc)
            out = self._generate(self.generators[nc])
            for path, texts in out.items():
                if len(texts) > 1:
                    self.discs.append(Discrepancy.make("two_texts_for_one_file", path, f"one generation produced {len(texts)} different texts for one stub file (history {self.history})", self.tags()))
            if nc not in self.first:
                self.first[nc] = out
                self.check_inlined(out, nc)
            elif out != self.first[nc]:
                diff = [p for p in sorted(set(out) | set(self.first[nc])) if out.get(p) != self.first[nc].get(p)]
                a = next(iter(self.first[nc].get(diff[0], {"<absent>"})))
                b = next(iter(out.get(diff[0], {"<absent>"})))
                line = next((f"{x!r} -> {y!r}" for x, y in zip(a.split("\n"), b.split("\n")) if x != y), "length differs")
                self.discs.append(Discrepancy.make("generation_differs_from_first", diff[0], f"after history {self.history}: {line}", self.tags()))
        now = self.canonical()
        if now != self.initial:
            a, b = json.loads(self.initial), json.loads(now)
            where = _first_json_diff(a, b)
            self.discs.append(Discrepancy.make("api_model_mutated", where[:200], f"api.to_dict() changed after history {self.history}", self.tags()))
            self.initial = now  # report each mutation once

    def tags(self) -> list[str]:
        return []

    def check_inlined(self, out: dict, nc: bool) -> None:
        """Every inlined copy of one private-base method must be identical in all subclasses that show it."""
        copies: dict[str, set[str]] = {}
        for key, texts in out.items():
            if key.startswith("<"):
                continue
            for text in texts:
                try:
                    sf = sdsparse.parse(text)
                except sdsparse.SdsSyntaxError:
                    continue
                for owner, d in sf.walk():
                    if d.kind == "fun" and owner and d.python_name.startswith("inh"):
                        sig = repr((d.python_name, [(p.python_name, p.type, p.default) for p in d.params or []], d.results, sorted(d.prefix.todos)))
                        copies.setdefault(d.python_name, set()).add(sig)
        for name, sigs in copies.items():
            if len(sigs) > 1:
                self.discs.append(Discrepancy.make("inlined_copies_differ", name, f"nc={nc}: {sorted(sigs)[0][:150]} vs {sorted(sigs)[1][:150]}", self.tags()))


def _first_json_diff(a: Any, b: Any, path: str = "") -> str:
    if type(a) != type(b):  # noqa: E721
        return f"{path}: {a!r} -> {b!r}"
    if isinstance(a, dict):
        for k in sorted(set(a) | set(b)):
            if a.get(k) != b.get(k):
                return _first_json_diff(a.get(k), b.get(k), f"{path}/{k}")
    if isinstance(a, list):
        if len(a) != len(b):
            return f"{path}: list length {len(a)} -> {len(b)}"
        for i, (x, y) in enumerate(zip(a, b)):
            if x != y:
                return _first_json_diff(x, y, f"{path}[{x.get('id', i) if isinstance(x, dict) else i}]")
    return f"{path}: {a!r} -> {b!r}"


def judge(case: dict) -> dict:
    """Replay of an explicit history (also used for the double-run relation)."""
    res: dict[str, Any] = {"discs": [], "nontrivial": [], "evals": 0, "stats": [], "sample": None}
    if case.get("mode") == "cli_twice":
        files = gt.render_package(case["pkg"])
        gt.check_compiles(files)
        opts = {**(case.get("options") or {}), "docstyle": case["pkg"].get("docstyle", "PLAINTEXT")}
        r1 = run_cli(files, opts, src=case["pkg"]["name"], runs=1)
        r2 = run_cli(files, opts, src=case["pkg"]["name"], runs=2)
        res["evals"] = 2
        for r in (r1, r2):
            if r["status"] != "ok":
                res["discs"].append(Discrepancy.make("run_failed", case["pkg"]["name"], str(r["exc"])[:300], []))
                return res
        t1 = {**r1["stubs"], **r1["others"]}
        t2 = {**r2["stubs"], **r2["others"]}
        if sorted(t1) != sorted(t2):
            res["discs"].append(Discrepancy.make("second_run_changes_file_set", case["pkg"]["name"], f"only after one run {sorted(set(t1) - set(t2))[:3]}, only after two {sorted(set(t2) - set(t1))[:3]}", []))
        for k in sorted(set(t1) & set(t2)):
            if t1[k] != t2[k]:
                res["discs"].append(Discrepancy.make("second_run_changes_content", k, f"{len(t1[k])} bytes after one run, {len(t2[k])} after two", []))
        if any(k.split("/")[0] != case["pkg"]["name"] and k.endswith(".sdsstub") for k in t1):
            res["nontrivial"].append("cli|" + case["pkg"]["name"] + "|" + str(len(t1)))
        return res
    runner = Runner(case["pkg"])
    try:
        for s in case["history"]:
            runner.step(s)
            res["evals"] += 1
        res["discs"] = runner.discs
    finally:
        runner.close()
    return res


_FAIL: dict[str, Any] = {}


def machine_shard(payload: tuple) -> dict:
    _modname, args = payload
    res = engine.new_result()
    known = Known(args["prop"])
    stats = res["stats"]

    class Generations(RuleBasedStateMachine):
        def __init__(self) -> None:
            super().__init__()
            self.runner: Runner | None = None

        @initialize(pkg=packages())
        def setup(self, pkg: dict) -> None:
            self.runner = Runner(pkg)
            res["cases"] += 1
            has_alias = any(r[0] == "from" and r[3] for v in pkg["inits"].values() for r in v)
            stats["package_with_aliased_reexport" if has_alias else "package_without_alias"] += 1
            if has_alias:
                res["nontrivial"].append(pkg["name"] + "|" + json.dumps(pkg["inits"])[:80])

        @rule(s=STEPS)
        def do(self, s: str) -> None:
            assert self.runner is not None
            self.runner.step(s)
            res["evals"] += 1
            stats["step:" + s.split(":")[0]] += 1

        @invariant()
        def holds(self) -> None:
            if self.runner is None:
                return
            new, _k = known.split(self.runner.discs)
            if new:
                _FAIL["last"] = {"discs": new[:10], "case": {"pkg": self.runner.pkg, "history": list(self.runner.history)}}
                raise AssertionError(new[0]["kind"])

        def teardown(self) -> None:
            if self.runner is not None:
                if len(res["samples"]) < 1 and len(self.runner.history) >= 3:
                    res["samples"].append({"package": self.runner.pkg["name"], "history": list(self.runner.history)})
                self.runner.close()

    try:
        phases = [Phase.generate] + ([Phase.shrink] if args.get("shrink") else [])
        machine = hypothesis.seed(derive_seed(args["prop"], args["seed"], args["shard"]))(Generations)
        try:
            run_state_machine_as_test(
                machine,
                settings=settings(max_examples=args["examples"], stateful_step_count=args.get("steps", 12), database=None, deadline=None, phases=phases, suppress_health_check=list(HealthCheck), report_multiple_bugs=False, print_blob=False),
            )
        except AssertionError:
            if "last" in _FAIL:
                res["failures"].append(_FAIL.pop("last"))
            else:
                raise
    except HarnessError as e:
        res["harness_errors"].append(str(e))
    except Exception as e:  # noqa: BLE001
        res["harness_errors"].append(f"{type(e).__name__}: {e}\n{traceback.format_exc()[-1500:]}")
    res["stats"] = dict(stats)
    res["known_hits"] = dict(known.hits)
    return res


@st.composite
def _cli_case(draw: Any, args: dict) -> dict:
    return {"mode": "cli_twice", "pkg": draw(packages()), "options": {"nc": draw(st.booleans())}}


def strategy(args: dict) -> st.SearchStrategy:
    return _cli_case(args)


def candidates(case: dict) -> list[dict]:
    out = []
    if "history" in case:
        h = case["history"]
        for i in range(len(h)):
            out.append({**case, "history": h[:i] + h[i + 1 :]})
    out += [c for c in engine.candidates({"pkg": case["pkg"]}) if c["pkg"]["modules"]]
    return [{**case, **({"pkg": c["pkg"]} if "pkg" in c and "history" not in c else c)} for c in out]


def run(ctx: Ctx) -> None:
    ctx.rule = (
        "state machines over one API object of a generated package (private bases inherited by 2-3 subclasses with "
        "Optional[Literal] / literal-union / *args parameters, declarations of a private module re-exported with and "
        "without alias, foreign classes): up to 12 (quick) / 30 (thorough) steps drawn from {generate(nc) fresh, "
        "generate_again(nc) on the used generator, serialise}; plus double console-script runs into one directory. "
        "evaluations = executed steps + CLI runs; non-trivial = machine whose package has an aliased re-export / double run "
        "with placeholder stubs."
    )
    ctx.assumptions = ["the API model is compared through canonical(api.to_dict()) (sets serialised as sorted lists)"]
    from collections import Counter

    payloads = []
    for s in range(ctx.n(16, 96)):
        payloads.append((MOD, {"prop": ctx.prop, "seed": ctx.seed, "shard": s, "examples": ctx.n(4, 16), "steps": 12 if ctx.tier == "quick" else 30, "shrink": ctx.tier == "thorough"}))
    _ = Counter
    results = engine.run_pool(ctx, machine_shard, payloads)
    failures = engine.merge(ctx, results)
    failures += engine.search(ctx, MOD, shards=ctx.n(10, 60), examples=ctx.n(2, 5))
    engine.report_failures(ctx, MOD, failures)
    engine.replay_known(ctx, MOD)


def replay(ctx: Ctx, path: str) -> int:
    return engine.replay_cli(ctx, MOD, path)
