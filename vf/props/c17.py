"""C17 — members of private ancestors surface once in public subclasses.

Domain: class hierarchies of 2-7 classes over 1-2 modules: chains, several private bases, diamonds, private bases in
another module, public bases in between, overriding at every level. Every definition of a method carries a parameter
named after its defining class, so the definition shown in a stub is identifiable.
Oracle: expected member set and definer from Python's own MRO (classes are built with type()), `sub` list = public
direct bases in source order, each local or imported.
"""

from __future__ import annotations

from typing import Any

from hypothesis import strategies as st

from vf import engine, gen, gt
from vf.common import Ctx, Discrepancy
from vf.outidx import StubSet
from vf.pipeline import run_case

MOD = "c17"
METHODS = ["alpha", "beta", "gamma", "delta", "_hidden"]


@st.composite
def _case(draw: Any, args: dict) -> dict:
    pkgname = gen.pkg_name(draw(st.integers(0, 99)))
    n = draw(st.integers(2, 7))
    two_mods = draw(st.booleans())
    classes: list[dict] = []  # {"name", "private", "bases": [names], "methods": [names], "mod": 0|1}
    start = 0
    if draw(st.integers(0, 2)) == 0:
        # an explicit diamond over a private base: _D0 <- _D1, _D2 <- D3 (public), methods drawn independently
        def ms() -> list[str]:
            return draw(st.lists(st.sampled_from(METHODS), min_size=0, max_size=3, unique=True))

        classes += [
            {"name": "_Priv0", "private": True, "bases": [], "methods": ms(), "mod": 0},
            {"name": "_Priv1", "private": True, "bases": ["_Priv0"], "methods": ms(), "mod": 0},
            {"name": "_Priv2", "private": True, "bases": ["_Priv0"], "methods": ms(), "mod": 0},
            {"name": "Pub3", "private": False, "bases": ["_Priv1", "_Priv2"], "methods": ms(), "mod": 0},
        ]
        start = 4
        n = max(n, 4)
    elif draw(st.integers(0, 2)) == 0:
        # a private class joining two unrelated private classes that share method names; the public class derives from the join
        def ms2() -> list[str]:
            return draw(st.lists(st.sampled_from(METHODS), min_size=1, max_size=3, unique=True))

        shared = draw(st.sampled_from(METHODS))
        classes += [
            {"name": "_Priv0", "private": True, "bases": [], "methods": sorted({shared, *ms2()}), "mod": 0},
            {"name": "_Priv1", "private": True, "bases": [], "methods": sorted({shared, *ms2()}), "mod": 0},
            {"name": "_Priv2", "private": True, "bases": ["_Priv0", "_Priv1"] if draw(st.booleans()) else ["_Priv1", "_Priv0"], "methods": [m for m in ms2() if m != shared] if draw(st.booleans()) else [], "mod": 0},
            {"name": "Pub3", "private": False, "bases": ["_Priv2"], "methods": [m for m in ms2() if m != shared][:1], "mod": 0},
        ]
        start = 4
        n = max(n, 4)
    elif draw(st.integers(0, 2)) == 0:
        # two different private classes with the same short name in the two modules, one deriving from the other
        def ms3() -> list[str]:
            return draw(st.lists(st.sampled_from(METHODS), min_size=1, max_size=3, unique=True))

        two_mods = True
        classes += [
            {"name": "_Priv0", "private": True, "bases": [], "methods": ms3(), "mod": 1},
            {"name": "_Priv0", "private": True, "bases": ["1:_Priv0"], "methods": ms3(), "mod": 0},
            {"name": "Pub2", "private": False, "bases": ["0:_Priv0"], "methods": ms3()[:1], "mod": 0},
        ]
        start = 3
        n = max(n, 3)
    for i in range(start, n):
        private = draw(st.sampled_from([True, True, False])) if (i < n - 1 or start) else False
        name = ("_Priv" if private else "Pub") + str(i)
        mod = 1 if (two_mods and private and draw(st.booleans())) else 0
        if mod == 1 and draw(st.booleans()):
            # the same short name as a private class of the other module (core._Base / widgets._Base(core._Base))
            others = [c["name"] for c in classes if c["private"] and c["mod"] == 0 and not any(x["name"] == c["name"] and x["mod"] == 1 for x in classes)]
            if others:
                name = draw(st.sampled_from(others))
        cand = [c for c in classes if not (c["mod"] == 0 and mod == 1)]  # module 1 never imports module 0 (no cycle)
        bases: list[str] = []
        for c in cand:
            if len(bases) < 3 and draw(st.sampled_from([True, True, False] if c["private"] else [True, False, False])):
                bases.append(key_of(c))
        if draw(st.booleans()):
            bases.reverse()
        methods = draw(st.lists(st.sampled_from(METHODS), min_size=1, max_size=4, unique=True))
        generic = (not private) and draw(st.integers(0, 9 if args.get("tier") != "thorough" else 3)) == 0
        classes.append({"name": name, "private": private, "bases": bases, "methods": methods, "mod": mod, "generic": generic})
    # a public class deriving several public classes in an order that is not the alphabetical one (and a private one)
    pubs = [c for c in classes if not c["private"] and c["mod"] == 0 and not c.get("generic")]
    if len(pubs) >= 2 and draw(st.integers(0, 2)) == 0:
        k = draw(st.integers(2, min(3, len(pubs))))
        chosen = draw(st.permutations(pubs))[:k]
        bases = [key_of(c) for c in sorted(chosen, key=lambda c: c["name"], reverse=True)]
        privs = [c for c in classes if c["private"] and c["mod"] == 0]
        if privs and draw(st.booleans()):
            bases.insert(draw(st.integers(0, len(bases))), key_of(draw(st.sampled_from(privs))))
        classes.append({"name": f"Pub{len(classes) + 20}", "private": False, "bases": bases, "methods": draw(st.lists(st.sampled_from(METHODS), min_size=1, max_size=2, unique=True)), "mod": 0, "generic": False})
    # properties: the same name may be defined at several levels (overridden in a subclass, reached twice in a diamond)
    for c in classes:
        c["props"] = draw(st.lists(st.sampled_from(PROPS), max_size=2, unique=True)) if draw(st.booleans()) else []
    for c in classes:  # (the explicit diamond above is written with plain names: normalise to keys)
        c["bases"] = [b if ":" in b else f"0:{b}" for b in c["bases"]]
    return {"pkgname": pkgname, "classes": classes, "options": {"nc": False}}


PROPS = ["size", "label_text", "kind"]


def key_of(c: dict) -> str:
    return f"{c['mod']}:{c['name']}"


def marker(c: dict) -> str:
    """Name of the parameter that identifies the defining class of a method."""
    return f"frm_{c['name'].lstrip('_')}{'b' if c['mod'] == 1 else ''}"


def strategy(args: dict) -> st.SearchStrategy:
    return _case(args)


def build_python(classes: list[dict]) -> dict[str, type] | None:
    """Create the classes with type(); bases that make the MRO inconsistent are dropped (the case is repaired)."""
    built: dict[str, type] = {}
    for c in classes:
        c["bases"] = [b if ":" in b else f"0:{b}" for b in c["bases"]]
        bases = [built[b] for b in c["bases"] if b in built]
        while True:
            try:
                built[key_of(c)] = type(key_of(c), tuple(bases), {m: (lambda self: None) for m in c["methods"]})
                break
            except TypeError:
                if not bases:
                    return None
                bases = bases[:-1]
        c["bases"] = [b.__name__ for b in bases]
    return built


def render(case: dict) -> dict[str, str]:
    pk = case["pkgname"]
    by_key = {key_of(c): c for c in case["classes"]}
    names0 = {c["name"] for c in case["classes"] if c["mod"] == 0}
    mods: dict[int, list[str]] = {0: [], 1: []}
    gen_keys = {key_of(x) for x in case["classes"] if x.get("generic")}
    for c in case["classes"]:
        bases_src = []
        for b in c["bases"]:
            bc = by_key[b]
            ref = bc["name"]
            if c["mod"] == 0 and bc["mod"] == 1 and bc["name"] in names0:
                ref = f"hier_b.{bc['name']}"  # same short name in both modules: module-qualified reference
            bases_src.append(f"{ref}[int]" if b in gen_keys else ref)
        if c.get("generic"):
            bases_src.append("Generic[TG]")
        lines = [f"class {c['name']}" + (f"({', '.join(bases_src)})" if bases_src else "") + ":"]
        for m in c["methods"]:
            lines.append(f"    def {m}(self, {marker(c)}: int) -> int:")
            lines.append("        return 0")
            lines.append("")
        for pn in c.get("props", []):
            lines.append("    @property")
            lines.append(f"    def {pn}(self) -> int:")
            lines.append("        return 0")
            lines.append("")
        if not c["methods"] and not c.get("props"):
            lines.append("    pass")
        mods[c["mod"]].append("\n".join(lines))
    files = {f"{pk}/__init__.py": ""}
    names1 = [c["name"] for c in case["classes"] if c["mod"] == 1]
    plain1 = [n for n in names1 if n not in names0]
    tv = "from typing import Generic, TypeVar\n\nTG = TypeVar(\"TG\")\n"
    head0 = "from __future__ import annotations\n"
    if names1:
        head0 += f"from {pk} import hier_b\n"
    if plain1:
        head0 += f"from {pk}.hier_b import {', '.join(plain1)}\n"
    head0 += tv
    files[f"{pk}/hier_a.py"] = head0 + "\n\n" + "\n\n\n".join(mods[0]) + "\n"
    if names1:
        files[f"{pk}/hier_b.py"] = "from __future__ import annotations\n" + tv + "\n\n" + "\n\n\n".join(mods[1]) + "\n"
    return files


def reachable_private(by_key: dict[str, dict], c: dict) -> list[str]:
    """Keys of the private ancestors reachable from c through private classes only."""
    out: list[str] = []

    def go(x: dict) -> None:
        for b in x["bases"]:
            bc = by_key[b]
            if bc["private"] and b not in out:
                out.append(b)
                go(bc)

    go(c)
    return out


def dfs_definer(by_key: dict[str, dict], c: dict, m: str) -> str | None:
    """The definer a depth-first, left-to-right walk over private bases meets first (tag for the open finding only)."""
    if m in c["methods"]:
        return key_of(c)
    for b in c["bases"]:
        bc = by_key[b]
        if bc["private"]:
            r = dfs_definer(by_key, bc, m)
            if r:
                return r
    return None


def judge(case: dict) -> dict:
    case = {**case, "classes": [dict(c) for c in case["classes"]]}
    built = build_python(case["classes"])
    res: dict[str, Any] = {"discs": [], "nontrivial": [], "evals": 0, "stats": [], "sample": None}
    if built is None:
        return {**res, "harness_error": "could not build the class hierarchy"}
    files = render(case)
    gt.check_compiles(files)
    r = run_case(files, case.get("options"), src=case["pkgname"])
    discs = res["discs"]
    if r["status"] != "ok":
        discs.append(Discrepancy.make("run_failed", case["pkgname"], f"{r['exc']['bucket']}: {r['exc']['msg']}", [], bucket=r["exc"]["bucket"]))
        return res
    ss = StubSet(r["stubs"])
    for rel, e in ss.errors.items():
        discs.append(Discrepancy.make("stub_unparsable", rel, str(e), []))
    by_key = {key_of(c): c for c in case["classes"]}
    shared_two = False
    same_short = len({c["name"] for c in case["classes"]}) < len(case["classes"])
    for c in case["classes"]:
        if c["private"]:
            # private classes are never declared
            if ss.find(c["name"]):
                discs.append(Discrepancy.make("private_class_declared", c["name"], "a private class has a declaration of its own", []))
            continue
        res["evals"] += 1
        hit = ss.one(c["name"], kind="class")
        if hit is None:
            discs.append(Discrepancy.make("class_not_found_once", c["name"], f"{len(ss.find(c['name']))} declarations", []))
            continue
        rel, decl = hit
        priv = reachable_private(by_key, c)
        relevant = [key_of(c), *priv]
        mro = [k.__name__ for k in built[key_of(c)].__mro__ if k.__name__ in relevant]
        expected: dict[str, str] = {}
        for m in METHODS:
            if m.startswith("_"):
                continue
            for k in mro:
                if m in by_key[k]["methods"]:
                    expected[m] = k
                    break
        definers_per_method = {m: [k for k in priv if m in by_key[k]["methods"]] for m in expected}
        if any(len(v) >= 2 for v in definers_per_method.values()):
            shared_two = True
        got = [d for d in decl.members if d.kind == "fun"]
        got_names = [d.python_name for d in got]
        tags_cls: list[str] = []
        is_diamond = any(sum(1 for k in relevant if a in by_key[k]["bases"]) >= 2 for a in priv)
        if is_diamond:
            tags_cls.append("inh:diamond")
        for m, definer in expected.items():
            cnt = got_names.count(m)
            tags = list(tags_cls)
            dfs = dfs_definer(by_key, c, m)
            if dfs != definer:
                tags.append("inh:dfs_vs_mro")
            if cnt != 1:
                discs.append(Discrepancy.make("inherited_method_count", f"{c['name']}.{m}", f"appears {cnt} times, expected exactly once (defined by {definer}; private ancestors {priv})", tags))
                continue
            d = got[got_names.index(m)]
            shown = [p.python_name for p in (d.params or [])]
            want = marker(by_key[definer])
            if shown != [want]:
                discs.append(Discrepancy.make("wrong_definition_shown", f"{c['name']}.{m}", f"stub shows the definition with parameters {shown}, Python's MRO {mro} selects {definer} ({want})", tags))
        # properties (rendered as attributes): every property name of the class or of its private ancestors exactly once
        exp_props = sorted({pn for k in relevant for pn in by_key[k].get("props", [])})
        got_attrs = [d.python_name for d in decl.members if d.kind == "attr"]
        for pn in exp_props:
            if got_attrs.count(pn) != 1:
                discs.append(Discrepancy.make("inherited_property_count", f"{c['name']}.{pn}", f"appears {got_attrs.count(pn)} times as attribute, expected exactly once (private ancestors {priv})", tags_cls))
        for extra in sorted(set(got_attrs) - set(exp_props)):
            discs.append(Discrepancy.make("unexpected_member", f"{c['name']}.{extra}", f"attribute that is no property of the class or of its private ancestors {priv}", tags_cls))
        for extra in sorted(set(got_names) - set(expected)):
            discs.append(Discrepancy.make("unexpected_member", f"{c['name']}.{extra}", f"not a public method of the class or of its private ancestors {priv}", tags_cls))
        # superclass list
        exp_sub = [by_key[b]["name"] for b in c["bases"] if not by_key[b]["private"]]
        got_sub = [s[1] for s in decl.supers if s[0] == "named"]
        if got_sub != exp_sub:
            sub_tags = tags_cls + (["inh:subscripted_base"] if any(by_key[b].get("generic") for b in c["bases"] if not by_key[b]["private"]) else [])
            discs.append(Discrepancy.make("sub_list_differs", c["name"], f"sub {got_sub} != public direct bases in source order {exp_sub}", sub_tags))
        sf = ss.files[rel]
        here = {d.name for d in sf.members}
        imported = {n for _p, n, _a in sf.imports}
        for b in got_sub:
            if b not in here and b not in imported:
                discs.append(Discrepancy.make("superclass_not_imported", f"{c['name']} sub {b}", "public superclass defined elsewhere is not imported", tags_cls))
        res["stats"].append(f"private_ancestors={min(len(priv), 3)}")
    if same_short:
        res["stats"].append("same_short_name_in_both_modules")
    if shared_two:
        res["nontrivial"].append(repr([(key_of(c), c["bases"], c["methods"]) for c in case["classes"]]))
        res["stats"].append("two_private_ancestors_share_a_method")
    if res["sample"] is None and shared_two:
        res["sample"] = {"classes": [(key_of(c), c["bases"], c["methods"]) for c in case["classes"]], "stub": next(iter(r["stubs"].values()))[:700]}
    return res


def candidates(case: dict) -> list[dict]:
    out = []
    cl = case["classes"]
    for i in range(len(cl) - 1, -1, -1):
        k = key_of(cl[i])
        rest = [dict(c, bases=[b for b in c["bases"] if b != k]) for j, c in enumerate(cl) if j != i]
        if rest:
            out.append({**case, "classes": rest})
    for i, c in enumerate(cl):
        for m in c["methods"]:
            out.append({**case, "classes": [dict(x, methods=[y for y in x["methods"] if not (j == i and y == m)]) for j, x in enumerate(cl)]})
        for b in c["bases"]:
            out.append({**case, "classes": [dict(x, bases=[y for y in x["bases"] if not (j == i and y == b)]) for j, x in enumerate(cl)]})
    return out


def run(ctx: Ctx) -> None:
    ctx.rule = (
        "hierarchies of 2-7 classes (private with probability 2/3, the last one public) in 1-2 modules, each with 0-3 earlier "
        "classes as bases (inconsistent MROs repaired) and 0-3 methods from a pool of 4 public names + 1 private name, so "
        "overriding happens at every level; a private class of the second module may carry the short name of a private class of the first; evaluations = public classes judged; non-trivial = hierarchy in which >=2 "
        "private ancestors of a public class define the same method."
    )
    ctx.assumptions = [
        "dunder methods, properties and attributes of private bases are not generated (the statement speaks of public methods)",
        "a public class whose public base and private base define the same method is judged for the private ancestors' methods only",
    ]
    failures = engine.search(ctx, MOD, shards=ctx.n(16, 96), examples=ctx.n(30, 80))
    engine.report_failures(ctx, MOD, failures)
    engine.replay_known(ctx, MOD)


def replay(ctx: Ctx, path: str) -> int:
    return engine.replay_cli(ctx, MOD, path)
