"""C14 — type-source preference settles only real conflicts; warnings never alter output.

Domain: functions, methods and constructors whose every parameter and result independently has a type hint in
{absent, A} and a docstring type in {absent, A, B != A} (the whole matrix per slot), in the three structured docstring
styles (spellings pinned by probes: NumPy 'name : T' / 'T' under Returns; Google 'name (T): ...' and 'r (T): ...';
reST ':type name: T' before ':param name:' and ':rtype: T'), run under 2 preferences x 2 warning settings.
Oracle: stub type per slot from the statement's table; WARN and IGNORE outputs byte-identical; the multiset of
discrepancy warnings on the root logger == one per slot whose two sources differ (none under IGNORE).
"""

from __future__ import annotations

from collections import Counter
from typing import Any

from hypothesis import strategies as st

from vf import engine, gen, gt, ref
from vf.common import Ctx, Discrepancy
from vf.outidx import StubSet
from vf.pipeline import run_case

MOD = "c14"
TYPES = [["int"], ["str"], ["bool"], ["float"], ["list", ["int"]], ["dict", ["str"], ["int"]], ["list", ["str"]]]
STYLES = ["NUMPYDOC", "GOOGLE", "REST"]


def tsrc(t: list) -> str:
    return ref.render_py(t, ref.Imports(), "")


def docstring(style: str, params: list[tuple[str, list | None, bool]], result: tuple[list | None, bool] | None, multi_results: list | None = None) -> str:
    """params: (name, doc type or None, documented?) ; result: (doc type or None, documented?)."""
    lines = ["Summary line.", ""]
    docp = [(n, t) for n, t, documented in params if documented]
    if style == "NUMPYDOC":
        if docp:
            lines += ["Parameters", "----------"]
            for n, t in docp:
                lines += [f"{n} : {tsrc(t)}" if t else n, f"    desc of {n}"]
            lines.append("")
        if multi_results:
            lines += ["Returns", "-------"]
            for i, t in enumerate(multi_results):
                # an entry without usable type is written with a prose type (the parser reports no type for it)
                lines += [f"res{i} : {tsrc(t) if t else 'text of arbitrary length'}", f"    desc of result {i}"]
            lines.append("")
        elif result and result[1]:
            lines += ["Returns", "-------", tsrc(result[0]) if result[0] else "res", "    desc of result", ""]
    elif style == "GOOGLE":
        if docp:
            lines.append("Args:")
            for n, t in docp:
                lines.append(f"    {n} ({tsrc(t)}): desc of {n}" if t else f"    {n}: desc of {n}")
            lines.append("")
        if result and result[1] and result[0]:
            lines += ["Returns:", f"    r ({tsrc(result[0])}): desc of result", ""]
    else:
        for n, t in docp:
            if t:
                lines.append(f":type {n}: {tsrc(t)}")
            lines.append(f":param {n}: desc of {n}")
        if result and result[1]:
            lines.append(":returns: desc of result")
            if result[0]:
                lines.append(f":rtype: {tsrc(result[0])}")
    return "\n".join(lines).rstrip("\n")


# pairs of different types whose ordered components are permutations of each other (extended: the tool's type values compare
# such components as multisets, so it sees no conflict - open finding about the warning; the chosen type is still judged)
PERM_PAIRS = [
    (["list", ["tuple", [["int"], ["str"]]]], ["list", ["tuple", [["str"], ["int"]]]]),
    (["dict", ["str"], ["tuple", [["bool"], ["float"]]]], ["dict", ["str"], ["tuple", [["float"], ["bool"]]]]),
    (["callable", [["int"], ["str"]], ["bool"]], ["callable", [["str"], ["int"]], ["bool"]]),
]


def is_perm_pair(hint: list | None, doc: list | None) -> bool:
    return hint is not None and doc is not None and any((hint == a and doc == b) or (hint == b and doc == a) for a, b in PERM_PAIRS)


@st.composite
def _slot(draw: Any) -> tuple[list | None, list | None]:
    if draw(st.integers(0, 7)) == 0:
        a, b = draw(st.sampled_from(PERM_PAIRS))
        return (a, b) if draw(st.booleans()) else (b, a)
    a = draw(st.sampled_from(TYPES))
    b = draw(st.sampled_from([t for t in TYPES if t != a]))
    return draw(st.sampled_from([(None, None), (None, a), (a, None), (a, a), (a, b), (a, b)]))


@st.composite
def _case(draw: Any, args: dict) -> dict:
    style = draw(st.sampled_from(STYLES))
    namer = gen.Namer()
    pk = gen.pkg_name(draw(st.integers(0, 99)))
    decls: list[dict] = []
    slots: dict[str, dict] = {}

    def make(name: str, kind: str, is_ctor: bool = False) -> tuple[dict, str]:
        params = []
        docparams = []
        fslots = {"params": {}, "result": None}
        n_params = draw(st.integers(1, 4))
        # half of the signatures take their parameter names from a pool shared by all functions of the package, so the
        # same name occurs elsewhere with other hint / docstring types
        shared = draw(st.permutations(["x", "y", "data", "value", "n", "flag", "items", "name"]))[:n_params] if draw(st.booleans()) else None
        for i_p in range(n_params):
            pn = shared[i_p] if shared else namer.fresh("p")
            hint, doc = draw(_slot())
            params.append(gt.param(pn, "pos", hint, None))
            docparams.append((pn, doc, doc is not None or draw(st.booleans())))
            fslots["params"][pn] = [hint, doc]
        if draw(st.booleans()):
            docparams = [docparams[i] for i in draw(st.permutations(range(len(docparams))))]  # documented in another order
        ret = None
        result = None
        multi = None
        if not is_ctor and style == "NUMPYDOC" and draw(st.integers(0, 2)) == 0:
            # several results: a tuple hint with one NumPy entry per element; an entry may lack a usable type
            k = draw(st.integers(2, 3))
            elems = [draw(st.sampled_from(TYPES)) for _ in range(k)]
            docs = []
            for e in elems:
                other = draw(st.sampled_from([t for t in TYPES if t != e]))
                docs.append(draw(st.sampled_from([None, e, other, other])))
            ret = ["tuple", elems]
            multi = docs
            fslots["results"] = [[e, d] for e, d in zip(elems, docs)]
            ds = docstring(style, docparams, None, multi)
            f = gt.func(name, params, ret=ret, kind=kind, doc=ds)
            return f, ds, fslots  # type: ignore[return-value]
        if not is_ctor:
            hint, doc = draw(_slot())
            if style == "GOOGLE" and hint is None and doc is None:
                pass
            ret = hint
            result = (doc, doc is not None)
            fslots["result"] = [hint, doc]
        ds = docstring(style, docparams, result)
        f = gt.func(name, params, ret=ret, kind=kind, doc=None if is_ctor else ds)
        return f, ds, fslots  # type: ignore[return-value]

    for _ in range(draw(st.integers(4, 8))):
        f, _ds, fs = make(namer.fresh("fn"), "function")  # type: ignore[misc]
        decls.append(f)
        slots[f["name"]] = fs
    for _ in range(draw(st.integers(1, 3))):
        cname = namer.fresh("Cls")
        members = []
        for _ in range(draw(st.integers(0, 2))):
            f, _ds, fs = make(namer.fresh("me"), draw(st.sampled_from(["method", "method", "static", "classmethod"])))  # type: ignore[misc]
            members.append(f)
            slots[f"{cname}.{f['name']}"] = fs
        ctor, cds, cfs = make("__init__", "method", True)  # type: ignore[misc]
        slots[f"{cname}.__init__"] = cfs
        decls.append(gt.klass(cname, members, ctor=ctor, doc=cds))
    mod = gt.module([pk, "tsmod"], decls)
    return {"pkg": gt.package(pk, [mod]), "style": style, "slots": slots, "nc": draw(st.booleans())}


def strategy(args: dict) -> st.SearchStrategy:
    return _case(args)


def expected_type(hint: list | None, doc: list | None, pref: str) -> Any:
    if hint is not None and doc is not None:
        return ref.tr(hint if pref == "CODE" else doc)
    if hint is not None:
        return ref.tr(hint)
    if doc is not None:
        return ref.tr(doc)
    return None


def judge(case: dict) -> dict:
    pkg = case["pkg"]
    files = gt.render_package(pkg)
    gt.check_compiles(files)
    res: dict[str, Any] = {"discs": [], "nontrivial": [], "evals": 0, "stats": [], "sample": None}
    discs = res["discs"]
    outputs: dict[tuple[str, str], dict] = {}
    modid = "/".join(pkg["modules"][0]["path"])
    for pref in ("CODE", "DOCSTRING"):
        for warn in ("WARN", "IGNORE"):
            r = run_case(files, {"docstyle": case["style"], "tsp": pref, "tsw": warn, "nc": case["nc"]}, src=pkg["name"])
            res["evals"] += 1
            if r["status"] != "ok":
                discs.append(Discrepancy.make("run_failed", f"{pref}/{warn}", f"{r['exc']['bucket']}: {r['exc']['msg'][:200]}", [], bucket=r["exc"]["bucket"]))
                return res
            outputs[(pref, warn)] = r
            # warnings
            msgs = Counter(m for lvl, m in r["logs"] if lvl == "WARNING" and m.startswith("Different type hint and docstring types"))
            exp: Counter = Counter()
            exp_perm: Counter = Counter()
            if warn == "WARN":
                for fname, fs in case["slots"].items():
                    fid = f"{modid}/{fname.replace('.', '/')}"
                    for _pn, (hint, doc) in fs["params"].items():
                        if hint is not None and doc is not None and ref.tr(hint) != ref.tr(doc):
                            exp[f"Different type hint and docstring types for '{fid}'."] += 1
                            if is_perm_pair(hint, doc):
                                exp_perm[f"Different type hint and docstring types for '{fid}'."] += 1
                    if fs["result"] and fs["result"][0] is not None and fs["result"][1] is not None and ref.tr(fs["result"][0]) != ref.tr(fs["result"][1]):
                        exp[f"Different type hint and docstring types for the result of '{fid}'."] += 1
                        if is_perm_pair(*fs["result"]):
                            exp_perm[f"Different type hint and docstring types for the result of '{fid}'."] += 1
                    for hint, doc in fs.get("results", []):
                        if doc is not None and ref.tr(hint) != ref.tr(doc):
                            exp[f"Different type hint and docstring types for the result of '{fid}'."] += 1
            if msgs != exp:
                missing = list((exp - msgs).elements())[:2]
                extra = list((msgs - exp).elements())[:2]
                # open finding: no warning for two different types whose ordered components are permutations of each other
                wtags = ["types:permutation_equal"] if msgs == exp - exp_perm else []
                discs.append(Discrepancy.make("warnings_differ", f"{pref}/{warn}", f"missing {missing}; unexpected {extra}", wtags))
        a, b = outputs[(pref, "WARN")], outputs[(pref, "IGNORE")]
        if a["stubs"] != b["stubs"] or a["api_text"] != b["api_text"]:
            diff = [k for k in sorted(set(a["stubs"]) | set(b["stubs"])) if a["stubs"].get(k) != b["stubs"].get(k)] or ["<api json>"]
            discs.append(Discrepancy.make("warning_option_changes_output", f"{pref}", f"WARN and IGNORE differ in {diff[:3]}", []))
        # types per slot
        ss = StubSet(a["stubs"])
        for rel, e in ss.errors.items():
            discs.append(Discrepancy.make("stub_unparsable", rel, str(e), []))
        conflict = agree = 0
        for fname, fs in case["slots"].items():
            chain = tuple(fname.split("."))
            if chain[-1] == "__init__":
                hit = ss.one(*chain[:-1], kind="class")
            else:
                hit = ss.one(*chain, kind="fun")
            if hit is None:
                discs.append(Discrepancy.make("decl_not_found_once", fname, pref, []))
                continue
            sparams = {p.python_name: p for p in (hit[1].params or [])}
            for pn, (hint, doc) in fs["params"].items():
                res["evals"] += 1
                want = expected_type(hint, doc, pref)
                got = ref.canon_stub_type(sparams[pn].type) if pn in sparams else "<missing>"
                if got != want:
                    discs.append(Discrepancy.make("slot_type_differs", f"{fname}({pn}) [{pref}]", f"hint {tsrc(hint) if hint else None}, docstring {tsrc(doc) if doc else None}: stub {ref.show(got) if got != '<missing>' else got}, expected {ref.show(want)}", []))
                if hint is not None and doc is not None:
                    if ref.tr(hint) != ref.tr(doc):
                        conflict += 1
                    else:
                        agree += 1
            if fs.get("results"):
                res["evals"] += 1
                want_l = [expected_type(h, d, pref) for h, d in fs["results"]]
                got_l = [ref.canon_stub_type(t) for _n, t in hit[1].results]
                if got_l != want_l:
                    discs.append(Discrepancy.make("slot_type_differs", f"{fname} results [{pref}]", f"hints/docstring types {[(tsrc(h), tsrc(d) if d else None) for h, d in fs['results']]}: stub {[ref.show(x) for x in got_l]}, expected {[ref.show(x) for x in want_l]}", []))
                if pref == "CODE" and any(d is None for _h, d in fs["results"]) and any(d is not None and ref.tr(h) != ref.tr(d) for h, d in fs["results"]):
                    res["stats"].append("tuple_result_with_untyped_and_conflicting_entries")
            elif fs["result"] is not None:
                hint, doc = fs["result"]
                res["evals"] += 1
                want = expected_type(hint, doc, pref)
                got_list = [ref.canon_stub_type(t) for _n, t in hit[1].results]
                got = got_list[0] if len(got_list) == 1 else (None if not got_list else got_list)
                if got != want:
                    discs.append(Discrepancy.make("slot_type_differs", f"{fname} result [{pref}]", f"hint {tsrc(hint) if hint else None}, docstring {tsrc(doc) if doc else None}: stub {got_list and [ref.show(x) for x in got_list]}, expected {ref.show(want)}", []))
        if pref == "CODE" and conflict and agree:
            res["nontrivial"].append(f"{pkg['name']}|{case['style']}|{conflict}|{agree}")
    res["stats"] += [f"style:{case['style']}", f"nc={case['nc']}"]
    if res["sample"] is None:
        src = files[f"{pkg['name']}/tsmod.py"]
        res["sample"] = {"style": case["style"], "source_excerpt": src[:600]}
    return res


def candidates(case: dict) -> list[dict]:
    import copy

    out = []
    decls = case["pkg"]["modules"][0]["decls"]
    for i in range(len(decls)):
        if len(decls) <= 1:
            break
        c = copy.deepcopy(case)
        d = c["pkg"]["modules"][0]["decls"].pop(i)
        for k in list(c["slots"]):
            if k == d["name"] or k.startswith(d["name"] + "."):
                del c["slots"][k]
        out.append(c)
    return out


def run(ctx: Ctx) -> None:
    ctx.rule = (
        "packages of 4-8 functions and 1-3 classes (methods, constructor documented on the class) whose 1-4 parameters and "
        "result each draw (hint, docstring type) from {(-,-), (-,A), (A,-), (A,A), (A,B)} over 7 types, rendered in one of the "
        "three structured styles (methods are instance / static / class methods; half of the signatures share parameter names with other functions; documented order may differ from the signature) and run under CODE/DOCSTRING x WARN/IGNORE (4 runs per case). evaluations = runs + judged "
        "slots; non-trivial = case with at least one conflicting and one agreeing slot."
    )
    ctx.assumptions = [
        "'the docstring gives a type' means the style's parser (griffe) reports one; the spellings are fixed by probes (DESIGN §5 C14), other spellings are outside the domain",
        "parameters have no defaults (under DOCSTRING preference defaults come from the docstring by design)",
        "warning messages name the function, not the parameter: the multiset of messages is compared",
    ]
    failures = engine.search(ctx, MOD, shards=ctx.n(16, 96), examples=ctx.n(6, 12))
    engine.report_failures(ctx, MOD, failures)
    engine.replay_known(ctx, MOD)


def replay(ctx: Ctx, path: str) -> int:
    return engine.replay_cli(ctx, MOD, path)
