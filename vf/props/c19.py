"""C19 — API type values obey round-trip, equality and hashing laws.

Engine E2: exhaustive enumeration to depth 1 (+ sampled depth 2) over a small leaf alphabet, Hypothesis
`recursive` terms to depth 6, and pairs (t, variant(t)) where the variant is built to be equal-but-not-identical.
Oracle: algebraic laws stated in the property, nothing read from the implementation.
"""

from __future__ import annotations

import itertools
import json
import math
from typing import Any

import hypothesis
from hypothesis import HealthCheck, Phase, given, settings
from hypothesis import strategies as st

from vf.common import Ctx, Discrepancy, derive_seed, trunc

# ------------------------------------------------------------------------------------------------
# Terms are described by plain JSON-able "specs" so that a replay file does not depend on the code
# under test:  ["Named", name, qname] | ["Unknown"] | ["NamedSeq", name, qname, [specs]] | ["Enum", [values], full_match]
# | ["Boundary", base, min, max, min_incl, max_incl, full_match] | ["Union"|"List"|"Set"|"Tuple", [specs]]
# | ["Dict", k, v] | ["Callable", [params], ret] | ["Literal", [values]] | ["Final", spec] | ["TypeVar", name, spec|None]
# ------------------------------------------------------------------------------------------------

ORDER_FREE = {"NamedSeq", "Union", "List", "Set", "Tuple", "Callable", "Literal"}


def build(spec: list) -> Any:
    import safeds_stubgen.api_analyzer._types as T

    k = spec[0]
    if k == "Unknown":
        return T.UnknownType()
    if k == "Named":
        return T.NamedType(spec[1], spec[2])
    if k == "NamedSeq":
        return T.NamedSequenceType(spec[1], spec[2], [build(s) for s in spec[3]])
    if k == "Enum":
        return T.EnumType(frozenset(spec[1]), spec[2])
    if k == "Boundary":
        return T.BoundaryType(spec[1], spec[2], spec[3], spec[4], spec[5], spec[6])
    if k == "Union":
        return T.UnionType([build(s) for s in spec[1]])
    if k == "List":
        return T.ListType([build(s) for s in spec[1]])
    if k == "Set":
        return T.SetType([build(s) for s in spec[1]])
    if k == "Tuple":
        return T.TupleType([build(s) for s in spec[1]])
    if k == "Dict":
        return T.DictType(build(spec[1]), build(spec[2]))
    if k == "Callable":
        return T.CallableType([build(s) for s in spec[1]], build(spec[2]))
    if k == "Literal":
        return T.LiteralType(list(spec[1]))
    if k == "Final":
        return T.FinalType(build(spec[1]))
    if k == "TypeVar":
        return T.TypeVarType(spec[1], build(spec[2]) if spec[2] is not None else None)
    raise ValueError(k)


def depth(spec: list) -> int:
    k = spec[0]
    if k in {"Unknown", "Named", "Enum", "Boundary", "Literal"}:
        return 0
    if k == "NamedSeq":
        return 1 + max([depth(s) for s in spec[3]], default=0)
    if k in {"Union", "List", "Set", "Tuple"}:
        return 1 + max([depth(s) for s in spec[1]], default=0)
    if k == "Dict":
        return 1 + max(depth(spec[1]), depth(spec[2]))
    if k == "Callable":
        return 1 + max([depth(s) for s in spec[1]] + [depth(spec[2])])
    if k == "Final":
        return 1 + depth(spec[1])
    if k == "TypeVar":
        return 0 if spec[2] is None else 1 + depth(spec[2])
    raise ValueError(k)


def constructors(spec: list) -> set[str]:
    out = {spec[0]}
    for x in spec[1:]:
        if isinstance(x, list) and x and isinstance(x[0], str) and x[0][:1].isupper() and x[0] in _ALL:
            out |= constructors(x)
        elif isinstance(x, list):
            for y in x:
                if isinstance(y, list) and y and isinstance(y[0], str) and y[0] in _ALL:
                    out |= constructors(y)
    return out


_ALL = {
    "Unknown", "Named", "NamedSeq", "Enum", "Boundary", "Union", "List", "Set", "Tuple", "Dict", "Callable",
    "Literal", "Final", "TypeVar",
}  # fmt: skip

# ---- leaf alphabet -------------------------------------------------------------------------------
LEAVES: list[list] = (
    [["Unknown"], ["Named", "int", "builtins.int"], ["Named", "A", "pkg.mod.A"]]
    + [["Enum", v, fm] for v in ([], ["a"], ["a", "b"]) for fm in ("", "{x}")][:4]
    + [
        ["Boundary", "float", 0.0, 1.0, True, False, ""],
        ["Boundary", "int", 0, "Infinity", True, True, ""],
        ["Boundary", "int", 0, "Infinity", True, False, ""],
        ["Boundary", "float", "NegativeInfinity", 1.5, False, True, "x"],
        ["Boundary", "float", "NegativeInfinity", "Infinity", False, False, ""],
    ]
    + [["Literal", v] for v in ([], ["a"], [1], [True], [1, "a"], [None], [1.5, False])]
    + [["TypeVar", "T", None], ["TypeVar", "U", None]]
)


def seqs(items: list[list], max_arity: int) -> list[list[list]]:
    out: list[list[list]] = []
    for n in range(max_arity + 1):
        out.extend([list(t) for t in itertools.product(items, repeat=n)])
    return out


def level_up(items: list[list], max_arity: int, callable_ret: list[list] | None = None) -> list[list]:
    """All terms whose direct children are taken from `items`."""
    ss = seqs(items, max_arity)
    out: list[list] = []
    for s in ss:
        out.append(["NamedSeq", "Box", "pkg.mod.Box", s])
        out.append(["Union", s])
        out.append(["List", s])
        out.append(["Set", s])
        out.append(["Tuple", s])
    for a in items:
        out.append(["Final", a])
        out.append(["TypeVar", "T", a])
        for b in items:
            out.append(["Dict", a, b])
    rets = callable_ret if callable_ret is not None else items
    for s in ss:
        for r in rets:
            out.append(["Callable", s, r])
    return out


# ---- variants that should be equal to the original by the stated semantics ------------------------
def variants(spec: list) -> list[tuple[str, list]]:
    """Terms that the type's own (documented) equality treats as equal: permuted children, other full_match."""
    out: list[tuple[str, list]] = []
    k = spec[0]
    if k in {"Union", "List", "Set", "Tuple"} and len(spec[1]) >= 2:
        out.append(("permute", [k, list(reversed(spec[1]))]))
        out.append(("rotate", [k, spec[1][1:] + spec[1][:1]]))
    if k == "NamedSeq" and len(spec[3]) >= 2:
        out.append(("permute", [k, spec[1], spec[2], list(reversed(spec[3]))]))
    if k == "Callable" and len(spec[1]) >= 2:
        out.append(("permute", [k, list(reversed(spec[1])), spec[2]]))
    if k == "Literal" and len(spec[1]) >= 2:
        out.append(("permute", [k, list(reversed(spec[1]))]))
    if k == "Enum":
        out.append(("full_match", [k, list(reversed(spec[1])), spec[2] + "~"]))
    if k == "Boundary":
        out.append(("full_match", [*spec[:6], spec[6] + "~"]))
        out.append(("toggle_max_inclusive", [*spec[:5], not spec[5], spec[6]]))
        out.append(("toggle_min_inclusive", [*spec[:4], not spec[4], spec[5], spec[6]]))
    # near-equal neighbours (not necessarily equal: whatever the answer, it must be symmetric and agree with the hash)
    if k in {"Union", "List", "Set", "Tuple", "Literal"} and spec[1]:
        out.append(("repeat_first", [k, [spec[1][0], *spec[1]]]))
        dedup = [c for i, c in enumerate(spec[1]) if c not in spec[1][:i]]
        if len(dedup) != len(spec[1]):
            out.append(("dedup", [k, dedup]))
    if k == "NamedSeq" and spec[3]:
        out.append(("repeat_first", [k, spec[1], spec[2], [spec[3][0], *spec[3]]]))
    # one level of recursion: vary the first child
    if k in {"Union", "List", "Set", "Tuple"} and spec[1]:
        for name, v in variants(spec[1][0])[:2]:
            out.append((f"child:{name}", [k, [v, *spec[1][1:]]]))
    if k == "Final":
        for name, v in variants(spec[1])[:2]:
            out.append((f"child:{name}", [k, v]))
    if k == "Dict":
        for name, v in variants(spec[2])[:2]:
            out.append((f"child:{name}", [k, spec[1], v]))
    if k == "TypeVar" and spec[2] is not None:
        for name, v in variants(spec[2])[:2]:
            out.append((f"child:{name}", [k, spec[1], v]))
    return out


# ---- the laws ------------------------------------------------------------------------------------
def _safe(f, *a):
    try:
        return ("ok", f(*a))
    except Exception as e:  # noqa: BLE001
        return ("exc", f"{type(e).__name__}: {e}")


def top_tags(spec: list) -> list[str]:
    return [f"ctor:{c}" for c in sorted(constructors(spec))]


def check_term(spec: list) -> list[Discrepancy]:
    """Laws over one term: round trip, idempotent serialisation, reflexivity, hash of the round-tripped copy."""
    from safeds_stubgen.api_analyzer._types import AbstractType

    out: list[Discrepancy] = []
    tags = top_tags(spec)
    el = json.dumps(spec)
    t = build(spec)

    r = _safe(lambda: t == t)  # noqa: PLR0124
    if r != ("ok", True):
        out.append(Discrepancy.make("not_reflexive", el, f"t == t gave {r}", tags))
    h = _safe(hash, t)
    if h[0] != "ok":
        out.append(Discrepancy.make("hash_raises", el, f"hash(t): {h[1]} although t == t", tags))

    d1 = _safe(t.to_dict)
    if d1[0] != "ok":
        out.append(Discrepancy.make("to_dict_raises", el, d1[1], tags))
        return out
    t2 = _safe(AbstractType.from_dict, d1[1])
    if t2[0] != "ok":
        out.append(Discrepancy.make("from_dict_raises", el, t2[1], tags))
        return out
    eq = _safe(lambda: t2[1] == t)
    eq_rev = _safe(lambda: t == t2[1])
    if eq != ("ok", True) or eq_rev != ("ok", True):
        out.append(Discrepancy.make("roundtrip_not_equal", el, f"from_dict(to_dict(t)) == t gave {eq}, reversed {eq_rev}; got {trunc(t2[1])}", tags))
    else:
        h2 = _safe(hash, t2[1])
        if h[0] == "ok" and (h2[0] != "ok" or h2[1] != h[1]):
            out.append(Discrepancy.make("roundtrip_hash_differs", el, f"t2 == t but hash(t2)={h2} hash(t)={h}", tags))
    d2 = _safe(lambda: t2[1].to_dict())
    if d2[0] != "ok":
        out.append(Discrepancy.make("reserialise_raises", el, d2[1], tags))
    elif d2[1] != d1[1]:
        out.append(Discrepancy.make("reserialise_differs", el, f"{trunc(d1[1])} vs {trunc(d2[1])}", tags))
    return out


def check_pair(sa: list, sb: list, relation: str = "") -> tuple[list[Discrepancy], bool]:
    """Laws over a pair: symmetry, eq => same hash. Returns (discrepancies, a == b)."""
    out: list[Discrepancy] = []
    tags = sorted(set(top_tags(sa)) | set(top_tags(sb))) + ([f"variant:{relation}"] if relation else [])
    el = json.dumps([sa, sb])
    a, b = build(sa), build(sb)
    ab = _safe(lambda: a == b)
    ba = _safe(lambda: b == a)
    if ab[0] != "ok" or ba[0] != "ok":
        out.append(Discrepancy.make("eq_raises", el, f"a==b {ab}, b==a {ba}", tags))
        return out, False
    if bool(ab[1]) != bool(ba[1]):
        out.append(Discrepancy.make("eq_not_symmetric", el, f"a==b {ab[1]}, b==a {ba[1]}", tags))
    equal = bool(ab[1]) and bool(ba[1])
    if equal:
        ha, hb = _safe(hash, a), _safe(hash, b)
        if ha[0] != "ok" or hb[0] != "ok" or ha[1] != hb[1]:
            out.append(Discrepancy.make("equal_but_hash_differs", el, f"a == b but hash(a)={ha} hash(b)={hb}", tags))
    if relation in {"permute", "rotate"} and not equal and sa[0] in ORDER_FREE:
        # these constructors compare their children as multisets (anchor: _types.py Counter-based __eq__);
        # the property only says: *if* order is ignored in equality it is ignored in hashing. Not equal => nothing to check.
        pass
    return out, equal


# ---- Hypothesis strategy for deep random terms -----------------------------------------------------
def spec_strategy() -> st.SearchStrategy:
    names = st.sampled_from(["int", "A", "B_c", "str", "None"])
    qn = st.sampled_from(["builtins.int", "pkg.mod.A", "pkg.other.A", "typing.Any", ""])
    fin = st.floats(allow_nan=False, allow_infinity=False, width=32)
    num = st.one_of(st.integers(-5, 5), fin)
    lit_val = st.one_of(st.text("ab\"\\", max_size=3), st.integers(-3, 3), st.booleans(), st.none(), fin)
    leaf = st.one_of(
        st.just(["Unknown"]),
        st.builds(lambda n, q: ["Named", n, q], names, qn),
        st.builds(lambda v, fm: ["Enum", sorted(set(v)), fm], st.lists(st.text("abc'", max_size=2), max_size=3), st.sampled_from(["", "{a}"])),
        st.builds(
            lambda b, lo, hi, li, hi_i, fm: ["Boundary", b, lo, hi, li, hi_i, fm],
            st.sampled_from(["int", "float"]),
            st.one_of(num, st.just("NegativeInfinity")),
            st.one_of(num, st.just("Infinity")),
            st.booleans(),
            st.booleans(),
            st.sampled_from(["", "m"]),
        ),
        st.builds(lambda v: ["Literal", v], st.lists(lit_val, max_size=3)),
        st.builds(lambda n: ["TypeVar", n, None], st.sampled_from(["T", "U_co"])),
    )

    def extend(children: st.SearchStrategy) -> st.SearchStrategy:
        kids = st.lists(children, max_size=3)
        return st.one_of(
            st.builds(lambda n, q, s: ["NamedSeq", n, q, s], names, qn, kids),
            st.builds(lambda k, s: [k, s], st.sampled_from(["Union", "List", "Set", "Tuple"]), kids),
            st.builds(lambda a, b: ["Dict", a, b], children, children),
            st.builds(lambda s, r: ["Callable", s, r], kids, children),
            st.builds(lambda a: ["Final", a], children),
            st.builds(lambda n, a: ["TypeVar", n, a], st.sampled_from(["T", "U_co"]), children),
        )

    return st.recursive(leaf, extend, max_leaves=12)


# ---- driver --------------------------------------------------------------------------------------
def _judge_all(ctx: Ctx, specs: list[list], seen_new: dict) -> None:
    for spec in specs:
        ctx.evaluations += 1
        ds = check_term(spec)
        dp = depth(spec)
        ctx.stats[f"depth{dp}"] += 1
        ctx.stats[f"ctor:{spec[0]}"] += 1
        if dp >= 2:
            ctx.note_nontrivial(json.dumps(spec))
        for name, v in variants(spec):
            ctx.evaluations += 1
            pd, equal = check_pair(spec, v, name)
            ctx.stats[f"pair:{name}:{'eq' if equal else 'ne'}"] += 1
            if equal:
                ctx.note_nontrivial(json.dumps([spec, v]))
            ds += pd
        new, _known = ctx.known.split(ds)
        for d in new:
            key = (d["kind"], tuple(d["tags"]))
            # keep the smallest witness per (kind, tags)
            if key not in seen_new or len(d["element"]) < len(seen_new[key]["element"]):
                seen_new[key] = d


def _shrink_spec(spec: list, kind: str, pair: bool) -> list:
    """Greedy structural shrink: replace sub-terms by leaves / drop children while the same kind still fails."""

    def fails(s: list) -> bool:
        try:
            if pair:
                return any(d["kind"] == kind for d in check_pair(s[0], s[1])[0])
            return any(d["kind"] == kind for d in check_term(s))
        except Exception:  # noqa: BLE001
            return False

    def candidates(s: Any) -> list:
        out = []
        if isinstance(s, list) and s and isinstance(s[0], str) and s[0] in _ALL:
            k = s[0]
            if k in {"Union", "List", "Set", "Tuple"}:
                for i in range(len(s[1])):
                    out.append([k, s[1][:i] + s[1][i + 1 :]])
                    out.append(s[1][i])
                    for c in candidates(s[1][i]):
                        out.append([k, s[1][:i] + [c] + s[1][i + 1 :]])
            elif k == "NamedSeq":
                for i in range(len(s[3])):
                    out.append([k, s[1], s[2], s[3][:i] + s[3][i + 1 :]])
                    for c in candidates(s[3][i]):
                        out.append([k, s[1], s[2], s[3][:i] + [c] + s[3][i + 1 :]])
            elif k == "Dict":
                out += [s[1], s[2]]
                out += [[k, c, s[2]] for c in candidates(s[1])] + [[k, s[1], c] for c in candidates(s[2])]
            elif k == "Callable":
                out.append(s[2])
                for i in range(len(s[1])):
                    out.append([k, s[1][:i] + s[1][i + 1 :], s[2]])
                out += [[k, s[1], c] for c in candidates(s[2])]
            elif k == "Final":
                out.append(s[1])
                out += [[k, c] for c in candidates(s[1])]
            elif k == "TypeVar" and s[2] is not None:
                out.append(s[2])
                out += [[k, s[1], c] for c in candidates(s[2])]
            elif k == "Literal":
                for i in range(len(s[1])):
                    out.append([k, s[1][:i] + s[1][i + 1 :]])
            elif k == "Enum":
                for i in range(len(s[1])):
                    out.append([k, s[1][:i] + s[1][i + 1 :], s[2]])
        return out

    cur = spec
    for _ in range(200):
        if pair:
            cands = [[c, cur[1]] for c in candidates(cur[0])] + [[cur[0], c] for c in candidates(cur[1])]
        else:
            cands = candidates(cur)
        cands.sort(key=lambda c: len(json.dumps(c)))
        for c in cands:
            if len(json.dumps(c)) < len(json.dumps(cur)) and fails(c):
                cur = c
                break
        else:
            return cur
    return cur


def run(ctx: Ctx) -> None:
    ctx.rule = (
        "terms over the 14 type constructors: exhaustive for depth<=1 over a 21-leaf alphabet (arity 0..2), "
        "depth 2 sampled by stride, Hypothesis recursive terms (<=12 leaves) beyond; every term also paired with "
        "variants built to be equal-but-not-identical (permuted children, other full_match, toggled inclusiveness). "
        "evaluations = single-term law evaluations + pair evaluations; non-trivial = a term of depth>=2, or a pair "
        "of non-identical terms that compare equal (distinct by JSON spec)."
    )
    ctx.assumptions = [
        "float NaN is outside the domain (NaN != NaN is Python's semantics, not the tool's)",
        "field domains as read from the constructors' annotations (_types.py)",
    ]
    seen_new: dict = {}

    # 1. exhaustive depth <= 1
    d0 = LEAVES
    d1 = level_up(d0, 2)
    _judge_all(ctx, d0, seen_new)
    _judge_all(ctx, d1, seen_new)
    ctx.extra["exhaustive_depth_le1_terms"] = len(d0) + len(d1)

    # 2. depth 2: children from a reduced depth-1 alphabet (every constructor represented); the alphabet is sized so that
    #    the enumeration stays in the order of 10^5 (quick) / 10^6 (thorough) terms, of which a strided sample is judged
    reduced = [s for i, s in enumerate(d1) if s[0] != "Callable" or i % 97 == 0]
    n_base = 40 if ctx.tier == "quick" else 120
    stride = max(1, len(reduced) // n_base)
    offs = ctx.seed % stride
    base2 = d0[:6] + reduced[offs::stride][:n_base]
    d2 = level_up(base2, 2, callable_ret=base2[:8])
    step = max(1, len(d2) // ctx.n(20000, 300000))
    d2s = d2[(ctx.seed % step) :: step]
    _judge_all(ctx, d2s, seen_new)
    ctx.extra["depth2_terms_judged"] = len(d2s)
    ctx.extra["depth2_terms_total_in_enumeration"] = len(d2)
    del d2

    # 3. Hypothesis random deep terms and independent pairs
    n_rand = ctx.n(3000, 200000)
    strat = spec_strategy()
    hyp_seen: list[list] = []

    @hypothesis.seed(derive_seed("C19", ctx.seed))
    @settings(
        max_examples=n_rand,
        database=None,
        deadline=None,
        derandomize=False,
        report_multiple_bugs=False,
        phases=[Phase.generate],
        suppress_health_check=list(HealthCheck),
    )
    @given(strat, strat)
    def rand(a: list, b: list) -> None:
        _judge_all(ctx, [a], seen_new)
        pd, equal = check_pair(a, b, "independent")
        ctx.evaluations += 1
        ctx.stats[f"pair:independent:{'eq' if equal else 'ne'}"] += 1
        if equal and a != b:
            ctx.note_nontrivial(json.dumps([a, b]))
        new, _ = ctx.known.split(pd)
        for d in new:
            seen_new.setdefault((d["kind"], tuple(d["tags"])), d)
        if len(hyp_seen) < 3 and depth(a) >= 2:
            hyp_seen.append(a)

    rand()

    for s in [d1[5], d1[len(d1) // 2], d2s[len(d2s) // 3], *hyp_seen]:
        ctx.add_sample({"spec": s, "to_dict": trunc(_safe(lambda s=s: build(s).to_dict()), 200)})

    # 4. report: one violation per root-cause bucket. Bucket = (kind, normalised failure signature); the shortest
    #    witness of each bucket is shrunk structurally, and buckets whose shrunk witnesses coincide are merged.
    pair_kinds = {"eq_raises", "eq_not_symmetric", "equal_but_hash_differs"}
    by_sig: dict = {}
    for d in seen_new.values():
        sig = (d["kind"], _signature(d["detail"]))
        if sig not in by_sig or len(d["element"]) < len(by_sig[sig]["element"]):
            by_sig[sig] = d
    buckets: dict = {}
    for d in by_sig.values():
        pair = d["kind"] in pair_kinds
        small = _shrink_spec(json.loads(d["element"]), d["kind"], pair)
        fresh = [x for x in (check_pair(small[0], small[1])[0] if pair else check_term(small)) if x["kind"] == d["kind"]]
        d2 = fresh[0] if fresh else d
        if ctx.known.match(d2):
            continue
        key = (d2["kind"], d2["element"])
        buckets[key] = d2
    ctx.extra["new_discrepancy_buckets"] = len(buckets)
    for d in sorted(buckets.values(), key=lambda x: (len(x["element"]), x["kind"]))[:12]:
        ctx.violation(d, {"spec": json.loads(d["element"]), "pair": d["kind"] in pair_kinds})

    # 5. coverage-guided campaign (atheris) with the same oracle inside the fuzz target
    from vf import engine

    engine.run_atheris(ctx, "c19", runs=ctx.n(4000, 150000), shards=ctx.n(2, 12), max_len=256)
    replay_known(ctx)


def _signature(detail: str) -> str:
    import re

    m = re.findall(r"(\w+Error: [^;)]*)", detail)
    return "|".join(sorted({re.sub(r"[0-9.e+-]+", "#", x)[:60] for x in m}))


def _replay_one(payload: dict) -> list[Discrepancy]:
    if payload.get("pair"):
        return check_pair(payload["spec"][0], payload["spec"][1])[0]
    return check_term(payload["spec"])


def replay_known(ctx: Ctx) -> None:
    from vf.common import VERIF

    for e in ctx.known.entries:
        rp = e.get("replay")
        if not rp:
            continue
        payload = json.loads((VERIF / rp).read_text())
        ds = _replay_one(payload)
        ctx.evaluations += 1
        still = [d for d in ds if d["kind"] == e.get("kind")]
        if e["status"] == "open":
            ctx.known_finding(e, "" if still else "no longer reproduces")
        elif e["status"] == "fixed" and ds:
            ctx.violation(ds[0], {"spec": payload["spec"], "pair": payload.get("pair", False), "regressed": e["id"]})


def replay(ctx: Ctx, path: str) -> int:
    from vf.common import VERIF

    p = (VERIF / path) if not path.startswith("/") else __import__("pathlib").Path(path)
    payload = json.loads(p.read_text())
    ds = _replay_one(payload)
    for d in ds:
        print(f"VIOLATION property={ctx.prop} replay={path}")
        print(f"  kind={d['kind']} detail={trunc(d['detail'], 400)}")
    if not ds:
        print("replay passes")
    return 1 if ds else 0


_ = math  # keep import (used by generated floats in specs when replaying by hand)
