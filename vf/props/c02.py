"""C02 — every emitted stub file is syntactically valid Safe-DS.

Domain: packages whose identifiers come from pools (plain, snake/camel shapes, every Safe-DS keyword that Python
accepts as a name, keyword-with-underscores) in every declaration position, with string / number defaults, Literal
values and docstring texts over a hostile alphabet, under both naming settings and all four docstring styles.
Oracle: the independent recogniser of vf/sdsparse.py must accept every .sdsstub file as a whole.
"""

from __future__ import annotations

import json
from typing import Any

from hypothesis import strategies as st

from vf import engine, gen, gt
from vf.common import Ctx, Discrepancy
from vf.pipeline import run_case
from vf.sdsparse import LENIENT, SdsSyntaxError, parse

MOD = "c02"
KW = gen.SDS_KEYWORDS_AS_PY  # 23 keywords that are legal Python identifiers
STYLES = ["PLAINTEXT", "GOOGLE", "NUMPYDOC", "REST"]

# ---- name pools -------------------------------------------------------------------------------------------
PRIVATE_CLASS_NAMES = ["_lead", "_Base_impl", "_mixin"]
PLAIN = ["alpha", "beta_value", "gammaRay", "Delta", "x", "y1", "long_snake_case_name", "MixedCase_name", "a_b_c", "n0_1", "ALLCAPS", "trail_", "dbl__under", "_lead"]


def name_pool(position: str) -> st.SearchStrategy:
    shapes = [st.sampled_from(PLAIN), st.sampled_from(KW)]
    # keyword surrounded by underscores: becomes the bare keyword under naming conversion
    shapes.append(st.sampled_from(KW).map(lambda k: k + "_"))
    shapes.append(st.sampled_from(KW).map(lambda k: k + "_x"))
    if position not in {"class", "module"}:
        shapes.append(st.sampled_from(KW).map(lambda k: "__" + k + "__"))
    if position == "class":
        shapes.append(st.sampled_from(PRIVATE_CLASS_NAMES))  # private classes: their public members are copied into public subclasses
    return st.one_of(*shapes)


TEXT_ALPHABET = st.sampled_from(
    ["a", "b", " ", " ", "word", "/*", "//", "/", "*", "* ", "@param", "@", "`", "{", "}", "{{", "'", "\t", "é", "λ", "<", ">", ",", ":", "(", ")", "=", "-", "0", "#", "$", "%", "~", ";", "|", "&", "!", "?", "."],
)
STR_ALPHABET = st.sampled_from(["a", "B", " ", "{", "}", "{{x}}", "'", "\n", "\t", "é", "/*", "*/", "//", "`", "<", ">", ",", "0", "", "@", "#", "(", ")"])


def texts() -> st.SearchStrategy:
    def fix(parts: list[str]) -> str:
        s = "".join(parts)
        while "*/" in s:
            s = s.replace("*/", "* /")
        return s

    return st.lists(TEXT_ALPHABET, min_size=1, max_size=8).map(fix)


def doc_texts() -> st.SearchStrategy:
    """Multi-line description texts (never containing '*/', never starting a griffe section by accident)."""
    line = texts()

    def build(lines: list[str]) -> str:
        out = []
        for ln in lines:
            ln = ln.rstrip()
            out.append(ln)
        s = "\n".join(out).strip("\n")
        return s if s.strip() else "text"

    return st.lists(st.one_of(line, line, st.just("")), min_size=1, max_size=4).map(build)


def str_values() -> st.SearchStrategy:
    return st.lists(STR_ALPHABET, max_size=5).map("".join)


def defaults() -> st.SearchStrategy:
    nums = st.sampled_from([["int", "0"], ["int", "-7"], ["int", "123456789012345678901234567890"], ["float", "1.5"], ["float", "-0.0"], ["float", "1e16"], ["float", "2.5e-7"], ["float", "-1e-9"], ["bool", True], ["bool", False], ["none"], ["expr", "not True"]])
    return st.one_of(nums, str_values().map(lambda s: ["str", s]))


def simple_types() -> st.SearchStrategy:
    lit = st.lists(st.one_of(str_values(), st.integers(-3, 3), st.booleans(), st.none()), min_size=1, max_size=3, unique_by=repr).map(lambda v: ["literal", v])
    return st.one_of(st.sampled_from([["int"], ["str"], ["opt", ["float"]], ["list", ["str"]], ["dict", ["str"], ["int"]], ["tuple", [["int"], ["str"]]], ["callable", [["int"]], ["none"]], ["set", ["bool"]]]), lit)


def style_doc(style: str, desc: str, params: list[tuple[str, str]], result: tuple[str, str] | None) -> str:
    """Render a docstring in the given style (descriptions are arbitrary text, names are the real parameter names)."""
    if style == "PLAINTEXT" or (not params and result is None):
        return desc
    def ind(text: str, pad: str) -> str:
        return ("\n" + pad).join(text.split("\n"))

    lines = [desc, ""]
    if style == "NUMPYDOC":
        if params:
            lines += ["Parameters", "----------"]
            for n, d in params:
                lines += [f"{n} : int", "    " + ind(d, "    ")]
            lines.append("")
        if result:
            lines += ["Returns", "-------", f"{result[0]} : int", "    " + ind(result[1], "    "), ""]
    elif style == "GOOGLE":
        if params:
            lines.append("Args:")
            for n, d in params:
                lines.append(f"    {n} (int): " + ind(d, "        "))
            lines.append("")
        if result:
            lines += ["Returns:", "    int: " + ind(result[1], "        "), ""]
    elif style == "REST":
        for n, d in params:
            lines.append(f":param {n}: " + ind(d, "    "))
        if result:
            lines.append(":returns: " + ind(result[1], "    "))
    return "\n".join(lines).rstrip("\n")


KIND_ORDER = ["posonly", "pos", "vararg", "kwonly", "kwarg"]


class Scope:
    """Names unique within one Python scope (suffixing keeps the interesting prefix)."""

    def __init__(self) -> None:
        self.used: set[str] = set()

    def take(self, name: str) -> str:
        base, i = name, 2
        while name in self.used or name in gen.PY_KEYWORDS:
            name = f"{base}{i}"
            i += 1
        self.used.add(name)
        return name


@st.composite
def _function(draw: Any, scope: Scope, style: str, kind: str = "function", fixed_name: str | None = None) -> dict:
    name = scope.take(fixed_name or draw(name_pool("function")))
    ps = Scope()
    if kind in {"method", "property"}:
        ps.take("self")
    if kind == "classmethod":
        ps.take("cls")
    params = []
    n_params = draw(st.integers(0, 4)) if kind != "property" else 0
    # parameter kinds in signature order: posonly* pos* vararg? kwonly* kwarg?
    kinds = sorted(draw(st.lists(st.sampled_from(["pos", "pos", "pos", "posonly", "kwonly", "vararg", "kwarg"]), min_size=n_params, max_size=n_params)), key=KIND_ORDER.index)
    seen_kinds: set[str] = set()
    for pk in kinds:
        if pk in {"vararg", "kwarg"} and pk in seen_kinds:
            pk = "kwonly" if pk == "vararg" else "kwarg2"
        if pk == "kwarg2":
            continue
        seen_kinds.add(pk)
        pname = ps.take(draw(name_pool("param")))
        has_ann = draw(st.booleans())
        d = draw(defaults()) if draw(st.booleans()) and pk not in {"vararg", "kwarg"} else None
        if pk in {"pos", "posonly"} and params and params[-1]["kind"] in {"pos", "posonly"} and params[-1]["default"] is not None and d is None:
            d = draw(defaults())
        if d is not None and d[0] == "expr":
            has_ann = True
        params.append(gt.param(pname, pk, draw(simple_types()) if has_ann else None, d))
    ret = draw(st.one_of(st.none(), simple_types()))
    if kind == "property":
        ret = draw(simple_types())
    doc = None
    if draw(st.booleans()):
        pd = [(p["name"], draw(texts())) for p in params if draw(st.booleans())]
        rd = None
        if ret is not None and ret != ["none"] and draw(st.booleans()):
            rname = draw(name_pool("result")) if style == "NUMPYDOC" else "r"
            rd = (rname, draw(texts()))
        doc = style_doc(style, draw(doc_texts()), pd, rd)
    return gt.func(name, params, ret=ret, kind=kind, doc=doc)


@st.composite
def _class(draw: Any, scope: Scope, style: str, depth: int = 0) -> dict:
    name = scope.take(draw(name_pool("class")))
    inner = Scope()
    members: list[dict] = []
    for _ in range(draw(st.integers(0, 3))):
        an = inner.take(draw(name_pool("attr")))
        members.append(gt.attr(an, draw(simple_types()), None) if draw(st.booleans()) else gt.attr(an, None, draw(st.sampled_from(["1", "'s'", "None", "1.5"]))))
    for _ in range(draw(st.integers(0, 3))):
        kind = draw(st.sampled_from(["method", "method", "static", "classmethod", "property"]))
        members.append(draw(_function(inner, style, kind)))
    if depth < 2 and draw(st.integers(0, 3)) == 0:
        members.append(draw(_class(inner, style, depth + 1)))
    ctor = None
    if draw(st.booleans()):
        ctor = draw(_function(Scope(), style, "method", fixed_name="__init__"))
        ctor["ret"] = None
        ctor["doc"] = None
        ias = []
        for p in ctor["params"]:
            if draw(st.booleans()):
                ias.append({"name": inner.take(draw(name_pool("attr"))), "ann": None, "value": p["name"]})
        ctor["init_attrs"] = ias
    doc = draw(doc_texts()) if draw(st.booleans()) else None
    return gt.klass(name, members, ctor=ctor, doc=doc)


@st.composite
def _enum(draw: Any, scope: Scope) -> dict:
    name = scope.take(draw(name_pool("class")))
    vs = Scope()
    variants = [vs.take(draw(name_pool("variant"))) for _ in range(draw(st.integers(0, 4)))]
    return gt.enum(name, variants, doc=draw(doc_texts()) if draw(st.booleans()) else None)


@st.composite
def _case(draw: Any, args: dict) -> dict:
    style = draw(st.sampled_from(STYLES))
    pkgname = gen.pkg_name(draw(st.integers(0, 99)))
    modules = []
    inits: dict[str, list] = {}
    reexported: set[str] = set()
    mscope = Scope()
    for _ in range(draw(st.integers(1, 4))):
        mname = mscope.take(draw(st.sampled_from(["mod_a", "modB", "plain", "some_module_x", "m1", "_private_mod", "with_trailing_"])))
        scope = Scope()
        decls: list[dict] = []
        for _ in range(draw(st.integers(1, 5))):
            decls.append(draw(_function(scope, style)))
        if draw(st.integers(0, 2)) == 0:
            tvn = draw(name_pool("tvar"))
            if tvn not in scope.used and tvn not in gen.PY_KEYWORDS:
                scope.used.add(tvn)  # (the type variable is a module-level name)
                tv = ["tvar", tvn, draw(st.sampled_from([["int"], ["str"]]))] if draw(st.booleans()) else ["tvar", tvn]
                decls.append(gt.func(scope.take(draw(name_pool("function"))), [gt.param("tv_arg", "pos", tv, None)], ret=tv))
        for _ in range(draw(st.integers(0, 3))):
            decls.append(draw(_class(scope, style)))
        for _ in range(draw(st.integers(0, 2))):
            decls.append(draw(_enum(scope)))
        perm = draw(st.permutations(range(len(decls))))
        decls = [decls[i] for i in perm]
        perm = range(len(decls))
        # superclasses: earlier classes of the module (plain names only: keyword-named classes used as types are an
        # open finding), sometimes a class from outside the package; one to three of them
        earlier: list[str] = []
        for d in decls:
            if d["t"] != "class":
                continue
            # (abc.ABC only sometimes: a direct ABC subclass is "abstract" for the tool and loses its parameter and superclass lists)
            pool = [["raw", n] for n in earlier] + [["ext", "collections", "OrderedDict"], ["ext", "argparse", "Namespace"]] + ([["ext", "abc", "ABC"]] if draw(st.integers(0, 5)) == 0 else [])
            if draw(st.integers(0, 2)) > 0:
                k = draw(st.integers(1, min(3, len(pool))))
                chosen = draw(st.permutations(pool))[:k]
                # a consistent MRO: in-package bases first in definition-reversed order is not needed (no diamond: the
                # pool classes get bases themselves, so keep only bases that are not ancestors of another chosen one)
                d["bases"] = _mro_safe(chosen, decls)
                # the subclass may define an attribute named like a method / property of one of its in-package bases
                by_name = {x["name"]: x for x in decls if x["t"] == "class"}
                inherited = [m["name"] for b in d["bases"] if b[0] == "raw" for m in by_name[b[1]]["members"] if m["t"] == "func"]
                own = {m["name"] for m in d["members"]} | {a["name"] for a in (d.get("ctor") or {}).get("init_attrs", [])}
                inherited = [n for n in inherited if n not in own]
                if inherited and draw(st.booleans()):
                    d["members"].insert(0, gt.attr(draw(st.sampled_from(inherited)), ["bool"], "False"))
            if d["name"] in PLAIN or d["name"].rstrip("0123456789") in PRIVATE_CLASS_NAMES:
                earlier.append(d["name"])
        sub = draw(st.sampled_from([[], [], ["sub_pkg"], ["sub_pkg"], ["sub_pkg", "deeper_one"], ["Camel"], ["zeta"], ["zeta"], ["yard"], ["sub_pkg", "inner"]]))
        modules.append(gt.module([pkgname, *sub, mname], [decls[i] for i in perm], doc=draw(doc_texts()) if draw(st.booleans()) else None))
        # the package of the module re-exports some of its functions / classes: they get stub files of their own
        if draw(st.booleans()):
            movable = [d for d in decls if d["t"] in {"func", "class"} and not d["name"].startswith("_") and not d.get("bases")]
            base_names = {b[1] for d in decls if d["t"] == "class" for b in d.get("bases", []) if b[0] == "raw"}
            for d in movable[: draw(st.integers(1, 2))]:
                if d["name"] in base_names or d["name"] in reexported:
                    continue  # (a moved superclass referenced from its origin module is C11's open finding)
                reexported.add(d["name"])
                inits.setdefault("/".join([pkgname, *sub]), []).append(["from", "." + mname, d["name"], None])
    # a type variable must not be named like a class or enum of the package (one name, two renaming rules under -nc:
    # the relation check of C09 could not tell the references apart)
    type_names = {d["name"] for m in modules for _o, d in gt.walk_decls(m["decls"]) if d["t"] in {"class", "enum"}}
    for m in modules:
        m["decls"] = [d for d in m["decls"] if not (d["t"] == "func" and any(p["ann"] and p["ann"][0] == "tvar" and p["ann"][1] in type_names for p in d["params"]))]
    return {"pkg": gt.package(pkgname, modules, inits), "options": {"nc": draw(st.booleans()), "docstyle": style}}


EXT_MRO = {"OrderedDict": ["OrderedDict", "dict", "object"], "ABC": ["ABC", "object"], "Namespace": ["Namespace", "_AttributeHolder", "object"]}


def _c3(bases: list, by_name: dict) -> list[str] | None:
    """C3 linearisation of a class with the given bases (None when Python would reject the class statement)."""
    seqs = []
    for b in bases:
        if b[0] == "raw":
            lin = _c3(by_name[b[1]].get("bases", []), by_name)
            if lin is None:
                return None
            seqs.append([b[1], *lin])
        else:
            seqs.append(list(EXT_MRO[b[2]]))
    if not bases:
        return ["object"]
    seqs.append([b[1] if b[0] == "raw" else b[2] for b in bases])
    out: list[str] = []
    while any(seqs):
        seqs = [q for q in seqs if q]
        for q in seqs:
            h = q[0]
            if not any(h in o[1:] for o in seqs):
                break
        else:
            return None
        out.append(h)
        seqs = [[x for x in q if x != h] for q in seqs]
    return out


def _mro_safe(chosen: list, decls: list) -> list:
    """Longest prefix of the chosen bases that Python can linearise (sound input: the class statement must execute)."""
    by_name = {d["name"]: d for d in decls if d["t"] == "class"}
    chosen = list(chosen)
    while chosen and (_c3(chosen, by_name) is None or len({tuple(b) for b in chosen}) != len(chosen)):
        chosen.pop()
    return chosen


def strategy(args: dict) -> st.SearchStrategy:
    return _case(args)


# ---- deterministic: every keyword in every declaration position ------------------------------------------------
def keyword_cases() -> list[dict]:
    cases = []
    forms = [lambda k: k, lambda k: k + "_", lambda k: "__" + k + "__"]
    for fi, form in enumerate(forms):
        for nc in (False, True):
            pkgname = gen.pkg_name(200 + fi)
            funcs, classes, enums, props = [], [], [], []
            for k in KW:
                n = form(k)
                funcs.append(gt.func(n, [gt.param(n, "pos", ["int"], ["int", "1"]), gt.param(n + "2", "kwonly", None, None)], ret=["int"], doc="Doc.\n\nReturns\n-------\n" + n + " : int\n    the result"))
                cn = n if not n.startswith("__") else k + "_"
                members = [
                    gt.attr(n, ["int"], "1"),
                    gt.func(n + "_m", [gt.param(n, "pos", ["str"], ["str", "s"])], kind="method", ret=["none"]),
                    gt.func(n + "_s", [gt.param(n, "pos", None, None)], kind="static"),
                    gt.func(n + "_c", [], kind="classmethod", ret=["int"]),
                    gt.func(n + "_p", [], kind="property", ret=["int"]),
                    gt.klass(cn + "N", [gt.attr(n, None, "2")]),
                ]
                ctor = gt.func("__init__", [gt.param(n, "pos", ["float"], None)], kind="method", init_attrs=[{"name": n + "_i", "ann": None, "value": n}])
                classes.append(gt.klass(cn, members, ctor=ctor))
                enums.append(gt.enum(cn, [form(x) for x in KW[:6]] + [n + "_v"]))
                props.append(gt.klass(cn, [gt.func(n, [], kind="property", ret=["str"]), gt.func(n + "2", [gt.param("x", "pos", ["tvar", n + "T"], None)], kind="method", ret=["tvar", n + "T"])]))
            # functions over type variables named like keywords, with and without an upper bound
            tvfuncs = []
            for k in KW:
                n = form(k)
                tvfuncs.append(gt.func(f"tvb_{k}", [gt.param("x", "pos", ["tvar", n, ["int"]], None)], ret=["tvar", n, ["int"]]))
            tvfuncs_free = [gt.func(f"tvf_{k}", [gt.param("x", "pos", ["tvar", form(k)], None)], ret=["list", ["tvar", form(k)]]) for k in KW]
            mods = [
                gt.module([pkgname, "kw_typevars_bound"], tvfuncs),
                gt.module([pkgname, "kw_typevars_free"], tvfuncs_free),
                gt.module([pkgname, "kw_functions"], funcs),
                gt.module([pkgname, "kw_classes"], classes),
                gt.module([pkgname, "kw_enums"], enums),
                gt.module([pkgname, "kw_props"], props),
            ]
            cases.append({"pkg": gt.package(pkgname, mods), "options": {"nc": nc, "docstyle": "NUMPYDOC"}, "label": f"keywords:{['bare', 'trailing_underscore', 'dunder'][fi]}:nc={nc}"})
    return cases


HOSTILE = set('"\\{}*/\n\t') | {"é", "λ"}


def judge(case: dict) -> dict:
    pkg = case["pkg"]
    files = gt.render_package(pkg)
    gt.check_compiles(files)
    r = run_case(files, case.get("options"))
    discs: list[Discrepancy] = []
    res: dict[str, Any] = {"discs": discs, "nontrivial": [], "evals": 0, "stats": [], "sample": None}
    extra_tags = list(case.get("feature_tags", []))
    if r["status"] != "ok":
        discs.append(Discrepancy.make("run_failed", pkg["name"], f"{r['exc']['bucket']}: {r['exc']['msg']}", extra_tags, bucket=r["exc"]["bucket"]))
        return res
    res["stats"].append(f"style:{case['options'].get('docstyle')}")
    res["stats"].append(f"nc:{bool(case['options'].get('nc'))}")
    for rel, text in r["stubs"].items():
        res["evals"] += 1
        try:
            sf = parse(text)
        except SdsSyntaxError as e:
            lines = text.split("\n")
            ctx_lines = lines[max(0, e.line - 2) : e.line + 1]
            discs.append(Discrepancy.make("stub_syntax_error", rel, f"{e} | near: {ctx_lines!r}", extra_tags))
            continue
        idents = sf.identifiers
        kw_like = [i for i in idents if i[1]]
        hostile = any(ch in text for ch in HOSTILE)
        if kw_like or hostile or any("_" in i[0] for i in idents):
            res["nontrivial"].append(json.dumps([sorted({i[0] for i in kw_like})[:8], sorted(set(text) & HOSTILE), len(idents)]))
        if kw_like:
            res["stats"].append("file_with_backquoted_identifier")
        if hostile:
            res["stats"].append("file_with_hostile_text")
        if res["sample"] is None and kw_like and hostile:
            res["sample"] = {"file": rel, "options": case["options"], "excerpt": text[:600]}
    return res


def run(ctx: Ctx) -> None:
    ctx.rule = (
        "packages whose names are drawn from pools (plain shapes, the 23 Safe-DS keywords that are legal Python names, "
        "keyword_ / keyword_x / __keyword__) for modules, classes, nested classes, functions, methods, properties, "
        "parameters, attributes, instance attributes, enums, enum members, numpydoc result names, type variables; "
        "classes with 0-3 superclasses (earlier classes of the module, OrderedDict, ABC), functions with all five parameter kinds, "
        "functions / classes re-exported by their package (stub files of their own) over sub-packages whose paths do or do not change under -nc; "
        "string defaults / Literal values / docstrings over a hostile alphabet (braces, comment openers, quotes ', tabs, "
        "newlines, non-ASCII); all 4 docstring styles x both naming settings; plus a deterministic sweep putting every "
        "keyword (3 spellings) in every position. evaluations = stub files parsed; non-trivial = a file containing a "
        "back-quoted identifier, an underscore identifier or hostile text (distinct by keyword set / hostile characters / size)."
    )
    ctx.assumptions = ["recogniser leniency: " + x for x in LENIENT] + [
        "triggers of the open C02 findings ('*/' in docstrings, double quote / backslash in strings, keyword class or enum used as a type, all-underscore names under -nc, non-ASCII identifiers, keyword module names, infinite floats) are excluded from the random search by construction and exercised by their replay files",
    ]
    failures = engine.run_cases(ctx, MOD, keyword_cases())
    failures += engine.search(ctx, MOD, shards=ctx.n(16, 96), examples=ctx.n(20, 60))
    engine.report_failures(ctx, MOD, failures)
    engine.replay_known(ctx, MOD)


def replay(ctx: Ctx, path: str) -> int:
    return engine.replay_cli(ctx, MOD, path)
