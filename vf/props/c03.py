"""C03 — every public declaration appears in the stubs exactly once (structure profile, ground-truth inventory)."""

from __future__ import annotations

from typing import Any

from hypothesis import strategies as st

from vf import engine, gen, structgen
from vf.common import Ctx
from vf.structure import judge_c03

MOD = "c03"


@st.composite
def _case(draw: Any, args: dict) -> dict:
    pkg = draw(structgen.struct_package(gen.pkg_name(draw(st.integers(0, 99))), tuple_targets=True))
    return {"pkg": pkg, "options": {"nc": draw(st.booleans())}}


def strategy(args: dict) -> st.SearchStrategy:
    return _case(args)


def judge(case: dict) -> dict:
    return judge_c03(case)


def run(ctx: Ctx) -> None:
    ctx.rule = (
        "package trees (1-5 packages incl. private ones, 1-2 modules each incl. private ones, 1-4 declarations per module: "
        "functions, classes with attributes / methods / properties / static and class methods / nested classes to depth 3 / "
        "constructors with instance attributes incl. one also defined in the class body, enums with members) with one "
        "re-export per selected module in the __init__ of its package or of an ancestor (by name, with public or private "
        "alias, star, module with/without alias; relative or absolute). evaluations = public declarations judged for "
        "'exactly once, in an allowed container'; non-trivial = package with a moved declaration, a class nested >=2 deep or "
        "an attribute defined in both class body and __init__."
    )
    ctx.assumptions = [
        "the re-exporting package may be any package whose __init__ re-exports the declaration (the statement says 'or')",
        "exception classes, abstract classes, TypeVar attributes are not generated (DESIGN §4.4)",
        "declarations in __init__.py, module-level overloads, multi-segment relative and multiple re-exports are extended features (open findings)",
    ]
    failures = engine.search(ctx, MOD, shards=ctx.n(16, 96), examples=ctx.n(24, 50))
    engine.report_failures(ctx, MOD, failures)
    engine.replay_known(ctx, MOD)


def replay(ctx: Ctx, path: str) -> int:
    return engine.replay_cli(ctx, MOD, path)
