"""C07 — results mirror the return annotation, or soundly cover inferred returns.

Part A (annotated): return annotations x docstring result entries (none / k named / k unnamed, three structured styles)
  -> result count, order, names, agreement with the API JSON.
Part B (un-annotated): bodies drawn from a statement grammar with literal-valued return statements; the ground truth
  evaluates the body to the set of return shapes; every literal at every position must be covered by the type set
  of the result at that position (coverage, not equality).
"""

from __future__ import annotations

import json
from typing import Any

from hypothesis import strategies as st

from vf import engine, gen, gt, names, ref
from vf.common import Ctx, Discrepancy
from vf.outidx import StubSet, api_index
from vf.pipeline import run_case

MOD = "c07"
STYLES = ["NUMPYDOC", "GOOGLE", "REST", "PLAINTEXT"]
LIT_KINDS = ["int", "float", "str", "bool", "none"]
LIT_SRC = {"int": ["1", "42", "0"], "float": ["1.5", "0.25"], "str": ["'a'", "\"text\""], "bool": ["True", "False"], "none": ["None"]}
CANON = {"int": ("named", "Int", ()), "float": ("named", "Float", ()), "str": ("named", "String", ()), "bool": ("named", "Boolean", ()), "none": ref.N}


# ---- bodies (Part B) --------------------------------------------------------------------------------------
# shape := ["lit", kind, src] | ["neg", kind, src] | ["tuple", [shape...]] | ["cond", shape, shape]
# stmt  := ["ret", shape] | ["ret_bare"] | ["ret_call"] | ["ret_attr"] | ["pass"] | ["expr"]
#        | ["if", body, [[body]...elifs], else|None] | ["try", body, [handler bodies], else|None, finally|None]
#        | ["for", body, else|None] | ["while", body, else|None] | ["with", body] | ["match", [bodies]] | ["def", body]


def shapes_s(depth: int = 2) -> st.SearchStrategy:
    lit = st.sampled_from(LIT_KINDS).flatmap(lambda k: st.sampled_from(LIT_SRC[k]).map(lambda s, k=k: ["lit", k, s]))
    neg = st.sampled_from([["neg", "int", "-3"], ["neg", "float", "-2.5"], ["neg", "int", "+4"]])
    base = st.one_of(lit, lit, neg)
    if depth <= 0:
        return base
    sub = shapes_s(depth - 1)
    tup = st.lists(sub, min_size=1, max_size=3).map(lambda xs: ["tuple", xs])
    cond = st.builds(lambda a, b: ["cond", a, b], base, base)
    # a conditional expression with one branch whose value is no literal (a variable, an operation on it, a call): the
    # literal of the other branch must still be covered
    opaque = st.sampled_from([["opaque", "a"], ["opaque", "a * 2"], ["opaque", "a[0]"], ["opaque", "helper_call(a)"], ["opaque", "a.attribute"]])
    cond_opaque = st.one_of(st.builds(lambda o, b: ["cond", o, b], opaque, base), st.builds(lambda b, o: ["cond", b, o], base, opaque))
    return st.one_of(base, base, tup, cond, cond_opaque)


def bodies_s(depth: int, extended: bool) -> st.SearchStrategy:
    leaf = st.one_of(
        shapes_s().map(lambda s: ["ret", s]),
        shapes_s().map(lambda s: ["ret", s]),
        st.sampled_from([["ret_bare"], ["ret_call"], ["ret_attr"], ["pass"], ["expr"]]),
    )
    if depth <= 0:
        return st.lists(leaf, min_size=1, max_size=2)
    sub = st.deferred(lambda: bodies_s(depth - 1, extended))
    opt_ext = st.one_of(st.none(), sub) if extended else st.none()
    compound = st.one_of(
        st.builds(lambda b, el, e: ["if", b, el, e], sub, st.lists(sub, max_size=2), st.one_of(st.none(), sub)),
        st.builds(lambda b, hs, e, f: ["try", b, hs, e, f], sub, st.lists(sub, min_size=1, max_size=2), opt_ext, opt_ext),
        st.builds(lambda b, e: ["for", b, e], sub, opt_ext),
        st.builds(lambda b, e: ["while", b, e], sub, opt_ext),
        st.builds(lambda b: ["with", b], sub),
        st.builds(lambda bs: ["match", bs], st.lists(sub, min_size=1, max_size=3)),
        st.builds(lambda b: ["def", b], sub),
    )
    return st.lists(st.one_of(leaf, compound), min_size=1, max_size=3)


def render_shape(s: list) -> str:
    k = s[0]
    if k in {"lit", "neg", "opaque"}:
        return s[2] if k != "opaque" else s[1]
    if k == "tuple":
        inner = ", ".join(render_shape(x) for x in s[1])
        return f"({inner},)" if len(s[1]) == 1 else f"({inner})"
    if k == "cond":
        return f"({render_shape(s[1])} if a else {render_shape(s[2])})"
    raise ValueError(s)


def render_body(body: list, ind: str = "") -> list[str]:
    out: list[str] = []
    for s in body:
        k = s[0]
        if k == "ret":
            src = render_shape(s[1])
            if s[1][0] == "tuple" and src.startswith("("):
                src = src[1:-1] if len(s[1][1]) > 1 else src
            out.append(f"{ind}return {src}")
        elif k == "ret_bare":
            out.append(f"{ind}return")
        elif k == "ret_call":
            out.append(f"{ind}return helper_call(a)")
        elif k == "ret_attr":
            out.append(f"{ind}return a.attribute")
        elif k == "pass":
            out.append(f"{ind}pass")
        elif k == "expr":
            out.append(f"{ind}helper_call(a)")
        elif k == "if":
            out.append(f"{ind}if a:")
            out += render_body(s[1], ind + "    ")
            for i, el in enumerate(s[2]):
                out.append(f"{ind}elif a == {i}:")
                out += render_body(el, ind + "    ")
            if s[3] is not None:
                out.append(f"{ind}else:")
                out += render_body(s[3], ind + "    ")
        elif k == "try":
            out.append(f"{ind}try:")
            out += render_body(s[1], ind + "    ")
            for i, h in enumerate(s[2]):
                out.append(f"{ind}except {'ValueError' if i == 0 else 'KeyError'}:")
                out += render_body(h, ind + "    ")
            if s[3] is not None:
                out.append(f"{ind}else:")
                out += render_body(s[3], ind + "    ")
            if s[4] is not None:
                out.append(f"{ind}finally:")
                out += render_body(s[4], ind + "    ")
        elif k in {"for", "while"}:
            out.append(f"{ind}for _x in a:" if k == "for" else f"{ind}while a:")
            out += render_body(s[1], ind + "    ")
            if s[2] is not None:
                out.append(f"{ind}else:")
                out += render_body(s[2], ind + "    ")
        elif k == "with":
            out.append(f"{ind}with a:")
            out += render_body(s[1], ind + "    ")
        elif k == "match":
            out.append(f"{ind}match a:")
            for i, b in enumerate(s[1]):
                out.append(f"{ind}    case {i}:" if i + 1 < len(s[1]) else f"{ind}    case _:")
                out += render_body(b, ind + "        ")
        elif k == "def":
            out.append(f"{ind}def inner_function(a):")
            out += render_body(s[1], ind + "    ")
        else:
            raise ValueError(s)
    return out


def shape_canon(s: list) -> Any:
    k = s[0]
    if k in {"lit", "neg"}:
        return CANON[s[1]]
    if k == "tuple":
        return ("named", "Tuple", tuple(shape_canon(x) for x in s[1]))
    raise ValueError(s)


def collect_returns(body: list, tags: tuple[str, ...] = ()) -> list[tuple[list, tuple[str, ...]]]:
    """All (shape, location tags) of return statements with a literal value that belong to this function."""
    out: list[tuple[list, tuple[str, ...]]] = []
    for s in body:
        k = s[0]
        if k == "ret":
            out.append((s[1], tags))
        elif k == "if":
            out += collect_returns(s[1], tags)
            for el in s[2]:
                out += collect_returns(el, tags)
            if s[3] is not None:
                out += collect_returns(s[3], tags)
        elif k == "try":
            out += collect_returns(s[1], tags)
            for h in s[2]:
                out += collect_returns(h, tags)
            if s[3] is not None:
                out += collect_returns(s[3], (*tags, "ret:try_else_finally"))
            if s[4] is not None:
                out += collect_returns(s[4], (*tags, "ret:try_else_finally"))
        elif k in {"for", "while"}:
            out += collect_returns(s[1], tags)
            if s[2] is not None:
                out += collect_returns(s[2], (*tags, "ret:loop_else"))
        elif k == "with":
            out += collect_returns(s[1], tags)
        elif k == "match":
            for b in s[1]:
                out += collect_returns(b, tags)
    return out


def expand(shape: list, tags: tuple[str, ...]) -> list[tuple[list, tuple[str, ...]]]:
    """Top-level conditional -> both branches; conditionals nested in tuples -> all combinations, tagged."""
    k = shape[0]
    if k == "opaque":
        return []  # no literal value
    if k == "cond":
        return expand(shape[1], tags) + expand(shape[2], tags)
    if k == "tuple":
        combos: list[tuple[list, tuple[str, ...]]] = [([], tags)]
        for x in shape[1]:
            if x[0] == "cond":
                alts = [(a, (*t, "ret:nested_conditional")) for a, t in expand(x, ())]
            else:
                alts = expand(x, ())
            combos = [(c + [a], (*ct, *at)) for c, ct in combos for a, at in alts]
        return [(["tuple", c], tuple(sorted(set(t)))) for c, t in combos]
    return [(shape, tags)]


def has_other_returns(body: list) -> bool:
    return any(s[0] in {"ret_call", "ret_attr"} for s in _flatten(body))


def _flatten(body: list) -> list:
    out = []
    for s in body:
        out.append(s)
        k = s[0]
        if k == "if":
            out += _flatten(s[1])
            for el in s[2]:
                out += _flatten(el)
            if s[3]:
                out += _flatten(s[3])
        elif k == "try":
            out += _flatten(s[1])
            for h in s[2]:
                out += _flatten(h)
            for x in (s[3], s[4]):
                if x:
                    out += _flatten(x)
        elif k in {"for", "while"}:
            out += _flatten(s[1])
            if s[2]:
                out += _flatten(s[2])
        elif k == "with":
            out += _flatten(s[1])
        elif k == "match":
            for b in s[1]:
                out += _flatten(b)
    return out


# ---- Part A: annotations x docstrings -----------------------------------------------------------------------
RET_TYPES = [
    ["none"], ["int"], ["str"], ["opt", ["int"]], ["list", ["str"]], ["tuple", [["int"], ["str"]]], ["tuple", [["bool"], ["float"], ["str"]]],
    ["union", [["int"], ["str"]]], ["dict", ["str"], ["int"]], ["tuple", [["list", ["int"]], ["opt", ["str"]]]], ["tuple", [["int"]]], ["bool"],
    # element types that repeat, or that only differ in the container (docstring entries can then be told apart by position alone)
    ["tuple", [["int"], ["int"]]], ["tuple", [["str"], ["int"], ["str"]]], ["tuple", [["list", ["int"]], ["set", ["int"]]]], ["tuple", [["opt", ["str"]], ["opt", ["str"]], ["int"]]],
]  # fmt: skip
DOC_NAMES = ["first", "second_value", "third", "res_x", "out_y", "this"]


def result_doc(style: str, entries: list[tuple[str, str, str]]) -> str:
    """entries: (name or '', python type text, description token)."""
    lines = ["Summary line.", ""]
    if style == "NUMPYDOC":
        lines += ["Returns", "-------"]
        for n, t, d in entries:
            lines.append(f"{n} : {t}" if n else t)
            lines.append(f"    {d}")
    elif style == "GOOGLE":
        lines.append("Returns:")
        n, t, d = entries[0]
        lines.append(f"    r ({t}): {d}")  # the spelling griffe's Google parser reads as (name, type, description)
    elif style == "REST":
        n, t, d = entries[0]
        lines += [f":returns: {d}", f":rtype: {t}"]
    return "\n".join(lines)


def annotated_elems(t: list) -> list:
    if t[0] == "none":
        return []
    if t[0] == "tuple":
        return list(t[1])
    return [t]


@st.composite
def _case(draw: Any, args: dict) -> dict:
    style = draw(st.sampled_from(STYLES))
    extended = True
    namer = gen.Namer()
    pkgname = gen.pkg_name(draw(st.integers(0, 99)))
    decls: list[dict] = []
    # Part A
    for _ in range(draw(st.integers(4, 10))):
        t = draw(st.sampled_from(RET_TYPES))
        elems = annotated_elems(t)
        mode = draw(st.sampled_from(["nodoc", "nodoc", "named", "unnamed"])) if style != "PLAINTEXT" else "nodoc"
        entries: list[tuple[str, str, str]] = []
        tags: list[str] = []
        if mode != "nodoc" and elems:
            k = len(elems)
            if style != "NUMPYDOC":
                k = 1
                mode = "unnamed"
            nm = draw(st.permutations(DOC_NAMES))
            # the docstring may state its types in another order than the annotation (entries are matched by position;
            # the default CODE preference keeps the annotated types)
            rot = 1 if style == "NUMPYDOC" and k >= 2 and draw(st.integers(0, 3)) == 0 else 0
            for i in range(k):
                tsrc = ref.render_py(elems[(i + rot) % k] if style == "NUMPYDOC" else t, ref.Imports(), "") if True else ""
                entries.append((nm[i] if mode == "named" else "", tsrc, f"tok{namer.fresh('d')}"))
        doc = result_doc(style, entries) if entries else (draw(st.sampled_from([None, "Just a description."])))
        f = gt.func(namer.fresh("ann_"), [gt.param("a", "pos", ["int"], None)], ret=t, doc=doc, tags=tags)
        f["doc_results"] = [list(e) for e in entries]
        f["part"] = "A"
        decls.append(f)
    # results that only the docstring knows (no return hint, nothing to infer)
    for _ in range(draw(st.integers(0, 2)) if style != "PLAINTEXT" else 0):
        k = draw(st.integers(1, 2)) if style == "NUMPYDOC" else 1
        terms = [draw(st.sampled_from([["int"], ["str"], ["bool"], ["float"], ["list", ["int"]]])) for _ in range(k)]
        named = style == "NUMPYDOC" and draw(st.booleans())
        nm = draw(st.permutations(DOC_NAMES))
        entries = [(nm[i] if named else "", ref.render_py(terms[i], ref.Imports(), ""), f"tok{namer.fresh('d')}") for i in range(k)]
        f = gt.func(namer.fresh("doconly_"), [gt.param("a", "pos", ["int"], None)], ret=None, doc=result_doc(style, entries), tags=[])
        f["doc_results"] = [list(e) for e in entries]
        f["doc_terms"] = terms
        f["part"] = "A"
        decls.append(f)
    # Part B
    for _ in range(draw(st.integers(5, 12))):
        body = draw(bodies_s(draw(st.integers(0, 2)), extended))
        f = gt.func(namer.fresh("inf_"), [gt.param("a", "pos", None, None)], ret=None, body=render_body(body))
        f["body_ast"] = body
        f["part"] = "B"
        if draw(st.integers(0, 3)) == 0:
            f["kind"], f["recv"] = "method", "self"
        decls.append(f)
    methods = [d for d in decls if d["kind"] == "method"]
    top = [d for d in decls if d["kind"] != "method"]
    if methods:
        top.append(gt.klass(namer.fresh("Host"), methods))
    perm = draw(st.permutations(range(len(top))))
    mod = gt.module([pkgname, "resmod"], [top[i] for i in perm], pre=["", "", "def helper_call(x): ..."])
    return {"pkg": gt.package(pkgname, [mod]), "options": {"nc": draw(st.booleans()), "docstyle": style}}


def strategy(args: dict) -> st.SearchStrategy:
    return _case(args)


def _has_perm(shapes: list) -> bool:
    """Two different tuple returns of equal length whose element types (conditionals count as one 'unknown') form the
    same multiset."""
    seen: dict = {}
    for sh, tags in shapes:
        if sh[0] != "tuple":
            continue
        elems = tuple(ref.show(shape_canon(x)) for x in sh[1])
        seen.setdefault(tuple(sorted(elems)), set()).add(elems)
    if any(len(v) >= 2 for v in seen.values()):
        return True
    # the same one level down: nested tuples at one result position (of any two returns) that are permutations of each other
    per_pos: dict = {}
    for sh, tags in shapes:
        for i, x in enumerate(sh[1] if sh[0] == "tuple" else [sh]):
            if x[0] == "tuple":
                elems = tuple(ref.show(shape_canon(e)) for e in x[1])
                per_pos.setdefault((i, tuple(sorted(elems))), set()).add(elems)
    return any(len(v) >= 2 for v in per_pos.values())


def raw_tuple_keys(body: list) -> list[tuple]:
    """Per tuple return statement: its element kinds with a conditional element counted as 'unknown'."""
    out = []
    for sh, _t in collect_returns(body):
        if sh[0] == "tuple":
            out.append(tuple("?" if x[0] == "cond" else ref.show(shape_canon(x)) if x[0] != "tuple" else "T" + str(len(x[1])) for x in sh[1]))
    return out


def type_members(c: Any) -> set:
    if c is None:
        return set()
    if c[0] == "U":
        return set(c[1])
    return {c}


def covers(result_type: Any, wanted: Any) -> bool:
    members = type_members(result_type)
    if wanted in members or ("unknown",) in members:  # 'unknown' (with its TODO marker) claims nothing false
        return True
    # a bool literal is also covered by a literal type / an int is not a float: no further leniency
    return False


def _sync_bodies(pkg: dict) -> None:
    for _m, _o, d in gt.walk_package(pkg):
        if d["t"] == "func" and d.get("part") == "B":
            d["body"] = render_body(d["body_ast"]) if d["body_ast"] else ["pass"]


def _ast_reductions(body: list) -> list[list]:
    """One-step reductions of a body AST: drop a statement, or replace a compound statement by one of its bodies."""
    out: list[list] = []
    for i, s in enumerate(body):
        if len(body) > 1:
            out.append(body[:i] + body[i + 1 :])
        subs: list[list] = []
        k = s[0]
        if k == "if":
            subs = [s[1], *s[2]] + ([s[3]] if s[3] else [])
        elif k == "try":
            subs = [s[1], *s[2]] + [x for x in (s[3], s[4]) if x]
        elif k in {"for", "while"}:
            subs = [s[1]] + ([s[2]] if s[2] else [])
        elif k == "with":
            subs = [s[1]]
        elif k == "match":
            subs = list(s[1])
        for sub in subs:
            out.append(body[:i] + sub + body[i + 1 :])
    return out


def candidates(case: dict) -> list[dict]:
    import copy

    out = []
    mods = case["pkg"]["modules"]
    decls = mods[0]["decls"]
    n = len(decls)
    if n > 1:
        for lo, hi in ((0, n // 2), (n // 2, n)):
            c = copy.deepcopy(case)
            del c["pkg"]["modules"][0]["decls"][lo:hi]
            out.append(c)
        if n <= 8:
            for i in range(n):
                c = copy.deepcopy(case)
                del c["pkg"]["modules"][0]["decls"][i]
                out.append(c)
    for i, d in enumerate(decls):
        if d["t"] == "class" and len(d["members"]) > 1:
            for j in range(len(d["members"])):
                c = copy.deepcopy(case)
                del c["pkg"]["modules"][0]["decls"][i]["members"][j]
                out.append(c)
        targets = [(i, None, d)] if d["t"] == "func" else [(i, j, m) for j, m in enumerate(d.get("members", []))]
        for ti, tj, f in targets:
            if f.get("part") == "B" and n <= 3:
                for red in _ast_reductions(f["body_ast"]):
                    c = copy.deepcopy(case)
                    tgt = c["pkg"]["modules"][0]["decls"][ti] if tj is None else c["pkg"]["modules"][0]["decls"][ti]["members"][tj]
                    tgt["body_ast"] = red
                    out.append(c)
    return out


def judge(case: dict) -> dict:
    pkg = case["pkg"]
    _sync_bodies(pkg)
    nc = bool(case["options"].get("nc"))
    style = case["options"].get("docstyle")
    files = gt.render_package(pkg)
    gt.check_compiles(files)
    r = run_case(files, case.get("options"))
    discs: list[Discrepancy] = []
    res: dict[str, Any] = {"discs": discs, "nontrivial": [], "evals": 0, "stats": [], "sample": None}
    if r["status"] != "ok":
        discs.append(Discrepancy.make("run_failed", pkg["name"], f"{r['exc']['bucket']}: {r['exc']['msg']}", [], bucket=r["exc"]["bucket"]))
        return res
    ss = StubSet(r["stubs"])
    for rel, e in ss.errors.items():
        discs.append(Discrepancy.make("stub_unparsable", rel, str(e), []))
    api = api_index(r["api"])
    for m, owner, d in gt.walk_package(pkg):
        if d["t"] != "func" or "part" not in d:
            continue
        res["evals"] += 1
        chain = (*owner, d["name"])
        el = ".".join(chain)
        hit = ss.one(*chain, kind="fun")
        if hit is None:
            discs.append(Discrepancy.make("decl_not_found_once", el, f"{len(ss.find(*chain))} declarations", []))
            continue
        results = hit[1].results
        got_types = [ref.canon_stub_type(t) for _, t in results]
        got_names = [n for n, _ in results]
        fid = "/".join([*m["path"], *chain])
        fe = api.get("functions", {}).get(fid)
        if fe is None:
            discs.append(Discrepancy.make("api_function_missing", el, fid, []))
        else:
            api_names = [rid.split("/")[-1] for rid in fe.get("results", [])]
            api_res = [api.get("results", {}).get(rid) for rid in fe.get("results", [])]
            if any(x is None for x in api_res):
                discs.append(Discrepancy.make("api_result_unresolved", el, f"{fe.get('results')}", []))
            # the stub suppresses the list for a single None result; otherwise names must agree (modulo conversion)
            if results and [names.rendered(n, nc) for n in api_names] != got_names:
                discs.append(Discrepancy.make("api_results_differ_from_stub", el, f"api {api_names} vs stub {got_names}", []))
        if d["part"] == "A":
            elems = d["doc_terms"] if d.get("doc_terms") else annotated_elems(d["ret"])
            exp_types = [ref.tr(x) for x in elems]
            res["stats"].append(f"A:{style}:{'doc' if d['doc_results'] else 'nodoc'}")
            if got_types != exp_types:
                discs.append(Discrepancy.make("annotated_results_differ", el, f"annotation {ref.render_py(d['ret'], ref.Imports(), '') if d['ret'] else '(docstring only)'}: stub {[ref.show(t) for t in got_types]} != {[ref.show(t) for t in exp_types]}", list(d["tags"])))
                continue
            exp_names = [f"result_{i + 1}" for i in range(len(elems))]
            if style == "NUMPYDOC" and d["doc_results"] and len(d["doc_results"]) == len(elems) and all(e[0] for e in d["doc_results"]):
                exp_names = [e[0] for e in d["doc_results"]]
                res["stats"].append("A:named_by_docstring")
            exp_rendered = [names.rendered(n, nc) for n in exp_names]
            if got_names != exp_rendered:
                discs.append(Discrepancy.make("result_names_differ", el, f"stub {got_names} != expected {exp_rendered} (nc={nc}, style={style})", list(d["tags"])))
            if len(elems) >= 2:
                res["nontrivial"].append(f"A|{ref.render_py(d['ret'], ref.Imports(), '') if d['ret'] else 'doconly'}|{style}|{bool(d['doc_results'])}|{nc}")
        else:
            rets = collect_returns(d["body_ast"])
            shapes: list[tuple[list, tuple[str, ...]]] = []
            for s, tags in rets:
                shapes += expand(s, tags)
            res["stats"].append(f"B:returns={min(len(rets), 4)}")
            def only_none(sh: list) -> bool:
                return (sh[0] == "lit" and sh[1] == "none") or (sh[0] == "tuple" and len(sh[1]) == 1 and only_none(sh[1][0]))

            all_none = bool(shapes) and all(only_none(sh) for sh, _ in shapes)
            if not shapes:
                # nothing inferable (no return / bare return / call or attribute returns only) => no results
                if results:
                    discs.append(Discrepancy.make("results_invented", el, f"no literal return statement, stub results {got_names}", []))
                continue
            if all_none and not results:
                continue
            # open finding: tuple returns that are permutations of each other are merged (order-insensitive TupleType ==)
            multisets: dict = {}
            for sh, _t in shapes:
                if sh[0] == "tuple":
                    key = tuple(sorted(ref.show(shape_canon(x)) if "ret:nested_conditional" not in _t else "?" for x in sh[1]))
                    multisets.setdefault((len(sh[1]), key if "ret:nested_conditional" not in _t else ("?",)), set()).add(json.dumps(sh))
            rk = raw_tuple_keys(d["body_ast"])
            by_ms: dict = {}
            for k in rk:
                by_ms.setdefault(tuple(sorted(k)), set()).add(k)
            perm_tag = ["ret:tuple_permutation"] if _has_perm(shapes) or any(len(v) >= 2 for v in by_ms.values()) else []
            for sh, tags in shapes:
                tags = (*tags, *perm_tag)
                elems_c = [shape_canon(x) for x in sh[1]] if sh[0] == "tuple" else [shape_canon(sh)]
                for i, want in enumerate(elems_c):
                    if i >= len(got_types) or not covers(got_types[i], want):
                        discs.append(
                            Discrepancy.make(
                                "return_value_not_covered", el,
                                f"return {render_shape(sh)}: position {i + 1} needs {ref.show(want)}; stub results {[ref.show(t) for t in got_types]}",
                                list(tags),
                            ),
                        )  # fmt: skip
            exp_names = [names.rendered(f"result_{i + 1}", nc) for i in range(len(results))]
            if got_names != exp_names:
                discs.append(Discrepancy.make("result_names_differ", el, f"stub {got_names} != {exp_names}", []))
            distinct_branches = len({json.dumps(s) for s, _ in shapes})
            if distinct_branches >= 2 or any(sh[0] == "tuple" for sh, _ in shapes):
                res["nontrivial"].append("B|" + json.dumps(sorted({render_shape(s) for s, _ in shapes}))[:200])
                res["stats"].append("B:nontrivial")
                if res["sample"] is None:
                    res["sample"] = {"body": d["body"], "stub_results": [f"{n}: {ref.show(t)}" for n, t in zip(got_names, got_types)]}
    return res


def run(ctx: Ctx) -> None:
    ctx.rule = (
        "Part A: functions with a return annotation from 12 shapes (None, scalars, optional, containers, tuples of 1-3) x "
        "docstring result entries (none / named / unnamed; NumPy, Google, reST, plain) judged for result count, order, "
        "types and names (+ API JSON agreement). Part B: un-annotated functions whose bodies are drawn from a statement "
        "grammar (if/elif/else, try/except[/else/finally], for/while[/else], with, match, nested def) with literal, "
        "signed, tuple and conditional return values; every literal at every position must be covered by the result at "
        "that position; no literal return => no results. evaluations = judged functions; non-trivial = >=2 distinct "
        "return shapes or a tuple return (B) / tuple annotation (A), distinct by shapes."
    )
    ctx.assumptions = [
        "result names are judged for NumPy-style docstrings only (the tool reads names from that style alone, by design)",
        "docstring result entries whose count differs from the annotation's are outside the core domain (statement is silent)",
        "returns of variables/calls/attributes are C01 material, not judged here",
    ]
    failures = engine.search(ctx, MOD, shards=ctx.n(16, 96), examples=ctx.n(20, 40))
    engine.report_failures(ctx, MOD, failures)
    engine.replay_known(ctx, MOD)


def replay(ctx: Ctx, path: str) -> int:
    return engine.replay_cli(ctx, MOD, path)
