"""C05 — type hints are translated faithfully and compositionally.

Domain: annotation terms over the grammar of vf/ref.py, enumerated exhaustively for depth<=1 (full alphabet) and
depth 2 (reduced alphabet, strided in the quick tier), random to depth 4 beyond; every term is placed in the five
positions {parameter, constructor parameter, result, class attribute, instance attribute}.
Oracle: reference translation `ref.tr` written from the property statement, compared as canonical trees.
"""

from __future__ import annotations

import itertools
from typing import Any

from hypothesis import strategies as st

from vf import engine, gen, gt, ref
from vf.common import Ctx, Discrepancy
from vf.outidx import StubSet
from vf.pipeline import run_case
from vf.sdsparse import type_to_str

MOD = "c05"
PER_CLASS = 8


def helper_refs(pkgname: str) -> dict:
    return {
        "ca": f"{pkgname}.tymod:Ca",
        "cb": f"{pkgname}.tymod:Cb",
        "co": f"{pkgname}.othermod:Cother",
        "en": f"{pkgname}.tymod:Colour",
        "g1": f"{pkgname}.tymod:Gbox",
        "g2": f"{pkgname}.othermod:Gpair",
    }


def names(i: int, n: int, share: bool) -> dict:
    """Names of the declarations carrying term i. share=True reuses names across positions: every function parameter
    is called 'x', and instance attribute i is called like the constructor parameter of the *next* term of its class
    (a same-named parameter with a different annotation), as in 'def __init__(self, data: list[int]): self.data: dict = ...'."""
    if not share:
        return {"fparam": f"x_{i}", "cparam": f"cp_{i}", "iattr": f"ia_{i}"}
    k = (i // PER_CLASS) * PER_CLASS
    size = min(PER_CLASS, n - k)
    nxt = k + (i - k + 1) % size
    return {"fparam": "x", "cparam": f"v_{i}", "iattr": f"v_{nxt}" if size > 1 else f"ia_{i}"}


def build_case(terms: list, pkgname: str, options: dict | None = None, share: bool = False) -> dict:
    h = helper_refs(pkgname)
    decls: list[dict] = [
        gt.klass("Ca"),
        gt.klass("Cb"),
        gt.enum("Colour", ["RED", "GREEN"]),
        gt.klass("Gbox", tparams=[{"name": "TG", "variance": "", "bound": None, "values": []}]),
    ]
    other = [gt.klass("Cother"), gt.klass("Gpair", tparams=[{"name": "KG", "variance": "", "bound": None, "values": []}, {"name": "VG", "variance": "", "bound": None, "values": []}])]
    for i, t in enumerate(terms):
        has_tv = "tvar" in ref.kinds_in(t)
        is_final = t[0] == "final"
        if not is_final:
            decls.append(gt.func(f"fp_{i}", [gt.param(names(i, len(terms), share)["fparam"], "pos", t)], ret=["none"]))
            rp = [gt.param(f"tv_{i}", "pos", ["tvar", "T"])] if has_tv else []
            decls.append(gt.func(f"fr_{i}", rp, ret=t))
    for k in range(0, len(terms), PER_CLASS):
        chunk = list(enumerate(terms))[k : k + PER_CLASS]
        members = []
        cparams = []
        init_attrs = []
        for i, t in chunk:
            inner = t[1] if t[0] == "final" else t
            members.append(gt.attr(f"ca_{i}", t, "None" if t[0] == "final" else None))
            nm = names(i, len(terms), share)
            cparams.append(gt.param(nm["cparam"], "pos", inner))
            init_attrs.append({"name": nm["iattr"], "ann": t, "value": nm["cparam"]})
        ctor = gt.func("__init__", cparams, kind="method", init_attrs=init_attrs)
        tps = [{"name": "T", "variance": "", "bound": None, "values": []}] if any("tvar" in ref.kinds_in(t) for _, t in chunk) else []
        decls.append(gt.klass(f"H_{k}", members, ctor=ctor, tparams=tps))
    pkg = gt.package(pkgname, [gt.module([pkgname, "tymod"], decls), gt.module([pkgname, "othermod"], other)])
    _ = h
    return pkg


def mk_case(terms: list, pkgname: str, options: dict | None = None, share: bool = False) -> dict:
    return {"terms": terms, "pkgname": pkgname, "options": options or {}, "share": share}


# ---- enumeration -------------------------------------------------------------------------------------
def full_leaves(h: dict) -> list:
    return [
        ["int"], ["str"], ["bool"], ["float"], ["none"], ["any"], ["cls", h["ca"]], ["cls", h["co"]], ["enum", h["en"]], ["tvar", "T"],
        ["literal", ["a"]], ["literal", [1, True]], ["literal", ["x", None]],
    ]  # fmt: skip


def level(items: list, h: dict, reduced: bool) -> list:
    out = []
    un = ["list", "set", "opt"] if reduced else ["list", "set", "seq", "coll", "opt", "pipenone", "nonepipe"]
    for a in items:
        for u in un:
            out.append([u, a])
        out.append(["tuple", [a]])
        out.append(["generic", h["g1"], [a]])
        if not reduced:
            out.append(["union", [a]])
            out.append(["callable", [], a])
            out.append(["final", a])
    for a, b in itertools.product(items, repeat=2):
        out.append(["dict", a, b])
        out.append(["union", [a, b]])
        out.append(["tuple", [a, b]])
        out.append(["callable", [a], b])
        if not reduced:
            out.append(["mapping", a, b])
            out.append(["pipe", [a, b]])
            out.append(["generic", h["g2"], [a, b]])
    return out


def enumerated_terms(ctx: Ctx, h: dict) -> list:
    leaves = full_leaves(h)
    d1 = leaves + level(leaves, h, reduced=False)
    red_leaves = [["int"], ["str"], ["none"], ["cls", h["ca"]]]
    r1 = red_leaves + level(red_leaves, h, reduced=True)
    d2 = level(r1, h, reduced=True)
    # depth-2 terms only (drop those whose children are all leaves: already in d1)
    d2 = [t for t in d2 if ref.depth(t) >= 2]
    stride = ctx.n(5, 1)
    d2s = d2[(ctx.seed % stride) :: stride] if ctx.tier == "quick" else d2
    ctx.extra.update({"depth_le1_terms": len(d1), "depth2_terms_enumerated": len(d2), "depth2_terms_judged": len(d2s)})
    ctx.exhaustive = False
    return d1 + d2s


# ---- tags for open findings -----------------------------------------------------------------------------
def simple_unanalysed(t: list) -> bool:
    """Terms the tool translates correctly even from the *unanalysed* annotation (names, list/set, X | Y of those)."""
    k = t[0]
    if k in {"int", "str", "bool", "float", "none", "any", "cls", "tvar"}:
        return True  # (enums are resolved through the package-wide alias table only if some expression mentions them)
    if k in {"list", "set", "pipenone", "nonepipe"}:
        return simple_unanalysed(t[1])
    if k == "pipe":
        return all(simple_unanalysed(x) for x in t[1])
    return False


def position_tags(t: list, position: str) -> list[str]:
    tags = []
    raw_inner = t[1] if t[0] == "final" else t
    inner = raw_inner
    while inner[0] == "union" and len(inner[1]) == 1:  # Union[X] is X for the type checker
        inner = inner[1][0]
    if position == "class_attr" and inner[0] == "list" and (inner is not raw_inner or not simple_unanalysed(inner[1])):
        tags.append("attr:list_unanalysed_args")
    if position in {"class_attr", "inst_attr"} and t[0] == "final" and not simple_unanalysed(raw_inner):
        tags.append("attr:final_unanalysed_args")
    if position in {"class_attr", "inst_attr"} and ref.tr(inner)[0] == "C":
        tags.append("attr:callable")
    return tags


def stub_union_duplicates(s: Any) -> str | None:
    """'unions ... with duplicates removed': a union<...> in the stub must not list the same member twice."""
    if s is None:
        return None
    k = s[0]
    if k == "nullable":
        return stub_union_duplicates(s[1])
    if k == "union":
        members = [ref.canon_stub_type(m) for m in s[1]]
        if len(members) != len(set(members)):
            texts = [type_to_str(m) for m in s[1]]
            # members that are equal types but spelled differently (nested literal / union members in another order)
            return type_to_str(s) + ("" if len(texts) != len(set(texts)) else " [members equal up to the order of nested literal/union members]")
        for m in s[1]:
            d = stub_union_duplicates(m)
            if d:
                return d
        return None
    if k == "named":
        for a in s[2]:
            d = stub_union_duplicates(a)
            if d:
                return d
        return None
    if k == "callable":
        for _, a in (*s[1], *s[2]):
            d = stub_union_duplicates(a)
            if d:
                return d
    return None


def expected_results(t: list) -> list:
    while t[0] == "union" and len(t[1]) == 1:  # Union[X] is X for the type checker
        t = t[1][0]
    if t[0] == "tuple":
        return [ref.tr(x) for x in t[1]]
    if ref.tr(t) == ref.N:  # '-> None' and annotations the type checker normalises to None (Optional[None], Union[None])
        return []
    return [ref.tr(t)]


def judge(case: dict) -> dict:
    terms = case["terms"]
    share = bool(case.get("share"))
    pkg = build_case(terms, case["pkgname"], share=share)
    files = gt.render_package(pkg)
    gt.check_compiles(files)
    r = run_case(files, case.get("options"))
    discs: list[Discrepancy] = []
    res: dict[str, Any] = {"discs": discs, "nontrivial": [], "evals": 0, "stats": [], "sample": None}
    if r["status"] != "ok":
        discs.append(Discrepancy.make("run_failed", pkg["name"], f"{r['exc']['bucket']}: {r['exc']['msg']}", [], bucket=r["exc"]["bucket"]))
        return res
    ss = StubSet(r["stubs"])
    for rel, e in ss.errors.items():
        discs.append(Discrepancy.make("stub_unparsable", rel, str(e), []))

    def cmp(pos: str, i: int, t: list, got: Any, found: bool, expect: Any, raw: Any = None) -> None:
        res["evals"] += 1
        tags = position_tags(t, pos) + [f"pos:{pos}"]
        el = f"{pos}#{i}:{ref.render_py(t, ref.Imports(), '')}"
        if not found:
            discs.append(Discrepancy.make("decl_missing", el, "declaration not found exactly once in the stubs", tags))
            return
        dup = stub_union_duplicates(raw) if raw is not None else None
        if dup:
            discs.append(Discrepancy.make("union_has_duplicates", el, f"stub type {dup} lists a member twice", tags + (["union:duplicate_up_to_nested_order"] if dup.endswith("members]") else [])))
        if got != expect:
            discs.append(Discrepancy.make("type_differs", el, f"stub {ref.show(got) if not isinstance(got, list) else [ref.show(g) for g in got]} != reference {ref.show(expect) if not isinstance(expect, list) else [ref.show(g) for g in expect]}", tags))

    def cmp_result(i: int, t: list, got: Any, found: bool) -> None:
        exp = expected_results(t)
        if found and exp == [ref.N] and got == []:
            # a 1-tuple whose only element is None: indistinguishable from '-> None' once it is a single None result
            res["evals"] += 1
            return
        if found and t[0] != "none" and exp == [] and got == [ref.N]:
            # an all-None union ('None | None'): the statement allows "one result carrying the translated type"
            res["evals"] += 1
            return
        cmp("result", i, t, got, found, exp)

    for i, t in enumerate(terms):
        nontriv = ref.depth(t) >= 2 or bool(ref.kinds_in(t) & {"union", "pipe", "opt", "pipenone", "nonepipe", "literal", "callable"})
        if nontriv:
            res["nontrivial"].append(ref.render_py(t, ref.Imports(), ""))
        res["stats"].append(f"depth{min(ref.depth(t), 4)}")
        res["stats"].append(f"top:{t[0]}")
        k = (i // PER_CLASS) * PER_CLASS
        nm = names(i, len(terms), share)
        inner = t[1] if t[0] == "final" else t
        if t[0] != "final":
            hit = ss.one(f"fp_{i}", kind="fun")
            ok = hit is not None and hit[1].params is not None and len(hit[1].params) == 1
            cmp("param", i, t, ref.canon_stub_type(hit[1].params[0].type) if ok else None, ok, ref.tr(t), hit[1].params[0].type if ok else None)
            hit = ss.one(f"fr_{i}", kind="fun")
            cmp_result(i, t, [ref.canon_stub_type(x) for _, x in hit[1].results] if hit else None, hit is not None)
        cls = ss.one(f"H_{k}", kind="class")
        cp = None
        if cls and cls[1].params is not None:
            cp = next((p for p in cls[1].params if p.python_name == nm["cparam"]), None)
        cmp("ctor_param", i, inner, ref.canon_stub_type(cp.type) if cp else None, cp is not None, ref.tr(inner), cp.type if cp else None)
        for pos, nm in (("class_attr", f"ca_{i}"), ("inst_attr", nm["iattr"])):
            hit = ss.one(f"H_{k}", nm, kind="attr")
            if ref.tr(inner)[0] == "named" and ref.tr(inner)[1] == "T":
                res["stats"].append("skipped:typevar_class_attribute(§4.4)")
                continue
            cmp(pos, i, t, ref.canon_stub_type(hit[1].type) if hit else None, hit is not None, ref.tr(t), hit[1].type if hit else None)
        if res["sample"] is None and nontriv and i % 7 == 3:
            hit = ss.one(f"fp_{i}", kind="fun")
            res["sample"] = {"python": ref.render_py(t, ref.Imports(), ""), "stub_param_type": type_to_str(hit[1].params[0].type) if hit and hit[1].params else None, "reference": ref.show(ref.tr(t))}
    return res


@st.composite
def _case(draw: Any, args: dict) -> dict:
    pkgname = gen.pkg_name(draw(st.integers(0, 99)))
    h = helper_refs(pkgname)
    env = gen.Env(classes=[h["ca"], h["cb"], h["co"]], enums=[h["en"]], generics=[(h["g1"], 1), (h["g2"], 2)], tvars=["T"])
    depth = 4 if args.get("tier") == "thorough" else 3
    terms = draw(st.lists(gen.type_terms(env, depth), min_size=15, max_size=30))
    terms = [t if draw(st.integers(0, 7)) else ["final", t] for t in terms]
    return mk_case(terms, pkgname, {"nc": False}, share=draw(st.booleans()))


def strategy(args: dict) -> st.SearchStrategy:
    return _case(args)


def run(ctx: Ctx) -> None:
    ctx.rule = (
        "(every second package reuses names across positions: all function parameters are called x, instance attribute i is named like the constructor parameter of term i+1) "
        "annotation terms: all terms of depth<=1 over the full alphabet (13 leaves, 8 unary, 7 binary constructors), "
        "depth-2 terms over the reduced alphabet (every 5th in quick, all in thorough), Hypothesis-drawn terms to "
        "depth 3-4; each in 5 positions. evaluations = judged (term, position) pairs; non-trivial = term of depth>=2 or "
        "containing a union/optional/literal/callable (distinct by rendered annotation)."
    )
    ctx.assumptions = [
        "unions are compared as sets (flattened, duplicates removed, 1-element union = its element); X? = union<X, Nothing?>; a union of literals = one literal; callable parameter/result names ignored",
        "TypeVar-valued class attributes are skipped by the tool on purpose (DESIGN §4.4)",
        "naming conversion off (C09 owns the renaming)",
    ]
    h = helper_refs(gen.pkg_name(7))
    terms = enumerated_terms(ctx, h)
    per_pkg = 150
    cases = [mk_case(terms[i : i + per_pkg], gen.pkg_name(7), {"nc": False}, share=(i // per_pkg) % 2 == 1) for i in range(0, len(terms), per_pkg)]
    failures = engine.run_cases(ctx, MOD, cases)
    failures += engine.search(ctx, MOD, shards=ctx.n(16, 96), examples=ctx.n(3, 12))
    engine.report_failures(ctx, MOD, failures, valid=valid)
    engine.replay_known(ctx, MOD)


def valid(case: dict) -> bool:
    return len(case.get("terms", [])) >= 1


def subterms(t: list) -> list:
    k = t[0]
    if k in {"list", "seq", "coll", "set", "opt", "pipenone", "nonepipe", "final"}:
        return [t[1]]
    if k in {"dict", "mapping"}:
        return [t[1], t[2]]
    if k in {"tuple", "union", "pipe"}:
        return list(t[1])
    if k == "callable":
        return [*t[1], t[2]]
    if k == "generic":
        return list(t[2])
    return []


def candidates(case: dict) -> list[dict]:
    """Reductions: keep one half / drop one term; replace a term by one of its sub-terms."""
    terms = case["terms"]
    out = []
    n = len(terms)
    if case.get("share"):
        out.append({**case, "share": False})
    if n > 1:
        out.append({**case, "terms": terms[: n // 2]})
        out.append({**case, "terms": terms[n // 2 :]})
        if n <= 12:
            for i in range(n):
                out.append({**case, "terms": terms[:i] + terms[i + 1 :]})
    else:
        for s in subterms(terms[0]):
            out.append({**case, "terms": [s]})
    return out


def replay(ctx: Ctx, path: str) -> int:
    return engine.replay_cli(ctx, MOD, path)
