"""C01 — every analysable package is processed to completion under every option set.

Domain: 'wild' packages from the grammar of vf/wild.py x the 64 option combinations. Oracle: total-function /
clean-rejection predicate: the run returns normally with a parseable API JSON file, or raises the documented
ValueError('No files found to analyse.') exactly when no analysable file exists; anything else is bucketed by
(exception type, innermost frame inside safeds_stubgen).
"""

from __future__ import annotations

import copy
import json
import warnings
from typing import Any

from hypothesis import strategies as st

from vf import engine, gen, wild
from vf.common import Ctx, Discrepancy
from vf.pipeline import run_case

MOD = "c01"
warnings.filterwarnings("ignore", category=SyntaxWarning)  # generated expressions like (1.5)[0] are legal, merely odd
EXCLUDED_DIRS = {"test", "tests", "docs"}


def strategy(args: dict) -> st.SearchStrategy:
    return st.integers(0, 99).flatmap(lambda i: wild.wild_case(gen.pkg_name(i)))


def compilable(case: dict) -> tuple[dict, int]:
    """Drop chunks that are not valid Python on their own (generator imprecision, counted, never a verdict)."""
    dropped = 0
    out = copy.deepcopy(case)
    for m in out["modules"]:
        keep = []
        for c in m["chunks"]:
            try:
                compile(wild.PRELUDE + "\n\n" + c["src"] + "\n", "<chunk>", "exec")
                keep.append(c)
            except SyntaxError:
                dropped += 1
        m["chunks"] = keep
    return out, dropped


def expect_rejection(case: dict) -> bool:
    testrun = bool(case["options"].get("testrun"))
    for m in case["modules"]:
        if testrun or not (set(m["path"][:-1]) & EXCLUDED_DIRS):
            return False
    return True


def judge(case: dict) -> dict:
    case2, dropped = compilable(case)
    files = wild.render_case(case2)
    res: dict[str, Any] = {"discs": [], "nontrivial": [], "evals": 1, "stats": [], "sample": None}
    for rel, src in files.items():
        try:
            compile(src, rel, "exec")
        except SyntaxError as e:
            return {**res, "harness_error": f"module {rel} does not compile although its chunks do: {e}"}
    r = run_case(files, case["options"], src=case["pkgname"])
    tags = sorted({t for m in case2["modules"] for c in m["chunks"] for t in c["tags"]})
    res["stats"] += [f"dropped_uncompilable_chunks={min(dropped, 3)}", "opt:" + case["options"]["docstyle"], f"opt:nc={case['options']['nc']}", f"opt:testrun={case['options']['testrun']}"]
    res["stats"] += [f"feature:{t}" for t in tags]
    el = case["pkgname"]
    rejected = expect_rejection(case2)
    if r["status"] == "exc":
        exc = r["exc"]
        if exc["type"] == "CompileError" or (exc["type"] == "SystemExit" and not exc.get("tool_frame")):
            res["stats"].append("mypy_blocking_error(skipped)")
            return res
        inner = exc.get("innermost") or ("", "", 0)
        if exc.get("tool_frame") and exc["tool_frame"][1] == "_get_mypy_build" and ("/mypy/" in inner[0] or inner[0].startswith("mypy/")):
            res["stats"].append("mypy_internal_error(skipped)")
            return res
        if exc.get("tool_frame") and tuple(exc["tool_frame"][:2]) == ("docstring_parsing/_docstring_parser.py", "__init__") and "/_griffe/" in inner[0] and exc["type"] != "KeyError":
            # griffe itself fails while loading a legal package (trusted base, like a mypy internal error)
            res["stats"].append("griffe_load_error(skipped)")
            return res
        if exc["type"] == "ValueError" and exc["msg"] == "No files found to analyse.":
            if not rejected:
                res["discs"].append(Discrepancy.make("rejected_although_files_exist", el, "ValueError('No files found to analyse.') but analysable files exist", tags))
            res["stats"].append("clean_rejection")
            return res
        res["discs"].append(Discrepancy.make("internal_error", el, f"{exc['bucket']}: {exc['msg'][:200]} | trace {exc.get('trace', [])[-3:]}", tags, bucket=exc["bucket"]))
        return res
    if rejected:
        res["discs"].append(Discrepancy.make("not_rejected", el, "no analysable file, yet the run completed", tags))
    if r["api_name"] != f"{case['pkgname']}__api.json" or r["api"] is None:
        res["discs"].append(Discrepancy.make("api_file_missing_or_invalid", el, f"api file {r['api_name']!r}, parse error {r.get('api_error')}", tags))
    n_funcs = sum(c["src"].count("def ") for m in case2["modules"] for c in m["chunks"])
    if r["stubs"] and n_funcs:
        res["nontrivial"].append(json.dumps([tags, case["options"]], sort_keys=True))
        res["stats"].append("reached_stub_generation")
    if res["sample"] is None and r["stubs"]:
        rel = sorted(files)[1]
        res["sample"] = {"options": case["options"], "file": rel, "source_excerpt": files[rel][len(wild.PRELUDE) : len(wild.PRELUDE) + 500], "stub_files": sorted(r["stubs"])[:6]}
    return res


def candidates(case: dict) -> list[dict]:
    out = []
    mods = case["modules"]
    if len(mods) > 1:
        for i in range(len(mods)):
            c = copy.deepcopy(case)
            del c["modules"][i]
            out.append(c)
    for i, m in enumerate(mods):
        n = len(m["chunks"])
        if n > 1:
            for lo, hi in ((0, n // 2), (n // 2, n)):
                c = copy.deepcopy(case)
                del c["modules"][i]["chunks"][lo:hi]
                out.append(c)
            for j in range(n):
                c = copy.deepcopy(case)
                del c["modules"][i]["chunks"][j]
                out.append(c)
        for j, ch in enumerate(m["chunks"]):
            # line-level reduction inside a chunk: drop one line / one block if it still compiles
            lines = ch["src"].split("\n")
            if len(lines) > 2 and n <= 2:
                for k in range(1, len(lines)):
                    ind = len(lines[k]) - len(lines[k].lstrip())
                    end = k + 1
                    while end < len(lines) and (not lines[end].strip() or len(lines[end]) - len(lines[end].lstrip()) > ind):
                        end += 1
                    new = "\n".join(lines[:k] + lines[end:])
                    try:
                        compile(wild.PRELUDE + "\n\n" + new + "\n", "<c>", "exec")
                    except SyntaxError:
                        continue
                    c = copy.deepcopy(case)
                    c["modules"][i]["chunks"][j]["src"] = new
                    out.append(c)
    if case.get("inits"):
        c = copy.deepcopy(case)
        c["inits"] = {}
        out.append(c)
    return out


def run(ctx: Ctx) -> None:
    ctx.rule = (
        "grammar-generated packages (1-5 modules in flat / nested / deep / tests-dir / same-name layouts, optional "
        "re-exporting __init__) of functions (all parameter kinds, arbitrary default and return expressions, bodies from "
        "a statement grammar incl. match/try/with/nested defs/yield), classes (25 base lists, 32 class-body statement "
        "forms, 16 decorator stacks, properties with setters, overloads, nested classes, dataclasses) and 30 special "
        "forms (enums of every shape, NamedTuple, TypedDict, aliases, overloads, conditional defs, async, generics, "
        "protocols, ABCs, exceptions), docstrings of all styles (well-formed and malformed) x one of the 64 option "
        "combinations per case. evaluations = pipeline runs; non-trivial = run reached stub generation for a package "
        "with functions (distinct by feature-tag set + options)."
    )
    ctx.assumptions = [
        "a mypy blocking error (CompileError), a mypy INTERNAL ERROR (SystemExit 2 from mypy) or an exception raised inside griffe.load() is a failure of the trusted base or of the generator's precondition: counted, not judged",
        "non-termination is bounded by the shard time-out; a timed-out shard is reported as inconclusive",
    ]
    failures = engine.search(ctx, MOD, shards=ctx.n(32, 320), examples=ctx.n(8, 25), extra={"collect_all": True}, timeout_s=1200 if ctx.tier == "quick" else 7200)
    engine.report_failures(ctx, MOD, failures)
    engine.replay_known(ctx, MOD)


def replay(ctx: Ctx, path: str) -> int:
    return engine.replay_cli(ctx, MOD, path)
