"""C10 — stub files are laid out by module path inside the output directory.

Domain: structure-generator trees (private modules/packages, re-exports to any ancestor, module-alias re-exports) with
references to classes of other libraries (placeholder stubs, incl. dotted module paths) x naming conversion x
absolute/relative/nested output paths x SRC given as the package directory or as its parent.
Oracle: path <-> header relation read from each file itself, no file outside OUT, number of files on disk == number of
virtual files the generator produced (a collision would lose one), API file name.
"""

from __future__ import annotations

from pathlib import PurePosixPath
from typing import Any

from hypothesis import strategies as st

from vf import engine, gen, gt, structgen
from vf.common import Ctx, Discrepancy
from vf.outidx import StubSet
from vf.pipeline import run_case

MOD = "c10"
FOREIGN = [["ext", "decimal", "Decimal"], ["ext", "fractions", "Fraction"], ["ext", "collections", "OrderedDict"], ["ext", "pathlib", "Path"], ["ext", "xml.dom.minidom", "Document"], ["ext", "decimal", "Context"], ["ext", "concurrent.futures", "Executor"], ["ext", "concurrent.futures", "Future"]]


@st.composite
def _case(draw: Any, args: dict) -> dict:
    pkgname = gen.pkg_name(draw(st.integers(0, 99)))
    pkg = draw(structgen.struct_package(pkgname, priv_bias=4))
    # sprinkle foreign classes over some functions
    for m in pkg["modules"]:
        for d in m["decls"]:
            if d["t"] == "func" and draw(st.integers(0, 3)) == 0:
                d["params"].append(gt.param(f"ext_{len(d['params'])}", "pos", draw(st.sampled_from(FOREIGN)), None))
    src_kind = draw(st.sampled_from(["package", "package", "parent", "parent_dotted"]))
    return {
        "pkg": pkg,
        "options": {"nc": draw(st.booleans())},
        "out_spelling": draw(st.sampled_from(["abs", "rel", "rel_slash"])),
        "out_sub": draw(st.sampled_from(["o", "deep/er/out", "o.dotted"])),
        "src_kind": src_kind,
    }


def strategy(args: dict) -> st.SearchStrategy:
    return _case(args)


def judge(case: dict) -> dict:
    pkg = case["pkg"]
    files = gt.render_package(pkg)
    gt.check_compiles(files)
    captured: dict[str, Any] = {}

    def hook() -> None:
        import safeds_stubgen.api_analyzer.cli._cli as cli

        if not hasattr(cli, "_vf_orig_generate"):
            cli._vf_orig_generate = cli.generate_stub_data  # type: ignore[attr-defined]
        orig = cli._vf_orig_generate  # type: ignore[attr-defined]

        def wrapped(*a: Any, **k: Any) -> Any:
            data = orig(*a, **k)
            captured["virtual"] = [(str(d[0]), d[1], d[2], d[3]) for d in data]
            gen_ = k.get("stubs_generator") or a[0]
            captured["generator"] = gen_
            return data

        cli.generate_stub_data = wrapped  # type: ignore[assignment]

    src = pkg["name"] if case["src_kind"] == "package" else ""
    root_name = "proj-1.2" if case["src_kind"] == "parent_dotted" else "s"
    r = run_case(files, case.get("options"), src=src, extra_pre=hook, out_spelling=case["out_spelling"], out_sub=case["out_sub"], src_root_name=root_name)
    discs: list[Discrepancy] = []
    res: dict[str, Any] = {"discs": discs, "nontrivial": [], "evals": 0, "stats": [], "sample": None}
    if r["status"] != "ok":
        discs.append(Discrepancy.make("run_failed", pkg["name"], f"{r['exc']['bucket']}: {r['exc']['msg']}", [], bucket=r["exc"]["bucket"]))
        return res
    for stray in r.get("stray_stubs", []):
        discs.append(Discrepancy.make("file_outside_out", stray, "output file written outside the requested output directory", []))
    ss = StubSet(r["stubs"])
    for rel, e in ss.errors.items():
        discs.append(Discrepancy.make("stub_unparsable", rel, str(e), []))
    module_names = {m["path"][-1] for m in pkg["modules"]}
    aliases = {st_[3] for v in pkg.get("inits", {}).values() for st_ in v if st_[0] == "module" and st_[3]}
    n_reexp = n_placeholder = n_underscore = 0
    for rel, sf in ss.files.items():
        res["evals"] += 1
        p = PurePosixPath(rel)
        pm = sf.python_module
        if list(p.parent.parts) != pm.split("."):
            discs.append(Discrepancy.make("directory_differs_from_module_path", rel, f"directory {p.parent} but the file announces Python module {pm!r}", []))
        base = p.name[: -len(".sdsstub")]
        tops = sf.members
        allowed = {pm.split(".")[-1].lstrip("_")}
        allowed |= {n.lstrip("_") for n in module_names | aliases}
        is_foreign = pm.split(".")[0] != pkg["name"]
        if len(tops) == 1:
            allowed.add(tops[0].python_name.lstrip("_"))
        if is_foreign:
            allowed = {pm.split(".")[-1]}
            n_placeholder += 1
        if base not in allowed or base.startswith("_"):
            ftags = ["foreign:private_module_name"] if is_foreign and pm.split(".")[-1].startswith("_") else []
            discs.append(Discrepancy.make("file_name_wrong", rel, f"base name {base!r} is neither the module name nor the single declaration's name, or keeps leading underscores (allowed {sorted(allowed)[:6]})", ftags))
        if not is_foreign and len(tops) == 1 and base == tops[0].python_name.lstrip("_") and base not in {n.lstrip("_") for n in module_names}:
            n_reexp += 1
        if not is_foreign and any(seg.startswith("_") for seg in pm.split(".")):
            n_underscore += 1
    # collisions: every virtual file (distinct path) must be on disk; two different texts must not share a path
    virt = captured.get("virtual")
    if virt is not None:
        by_path: dict[str, set[str]] = {}
        for d, name, text, is_pkg_module in virt:
            dd = str(PurePosixPath(d).parent) if is_pkg_module else d
            by_path.setdefault(f"{dd}/{name.lstrip('_')}.sdsstub", set()).add(text)
        # open finding: a module named like a declaration re-exported by name is taken for that re-export and written to its path
        from_stmts = [st_ for v in pkg.get("inits", {}).values() for st_ in v if st_[0] == "from"]
        confusable_files = {(st_[3] or st_[2]).lstrip("_") + ".sdsstub" for st_ in from_stmts if st_[2] in module_names}
        # open finding: one declaration name re-exported from two different modules (re-exports are matched by name): both
        # land in the file of one of the re-exports
        by_decl: dict[str, set] = {}
        for st_ in from_stmts:
            by_decl.setdefault(st_[2], set()).add(st_[1])
        twice_files = {(st_[3] or st_[2]).lstrip("_") + ".sdsstub" for st_ in from_stmts if len(by_decl[st_[2]]) >= 2}
        for path, texts in by_path.items():
            if len(texts) > 1:
                ctags = [structgen.CONFUSABLE] if PurePosixPath(path).name in confusable_files else []
                if PurePosixPath(path).name in twice_files:
                    ctags.append("reexp:same_name_from_two_modules")
                discs.append(Discrepancy.make("two_texts_one_path", path, f"{len(texts)} different stub texts are written to one path", ctags))
        own = [rel for rel, sf in ss.files.items() if sf.python_module.split(".")[0] == pkg["name"]]
        if len(by_path) != len(own) + len([e for e in ss.errors if e.startswith(pkg["name"])]):
            discs.append(Discrepancy.make("file_count_differs", pkg["name"], f"{len(by_path)} distinct virtual stub files but {len(own)} files of the package on disk", []))
    expected_api = (pkg["name"] if case["src_kind"] == "package" else root_name) + "__api.json"
    if r["api_name"] != expected_api:
        discs.append(Discrepancy.make("api_file_name", str(r["api_name"]), f"expected {expected_api} directly in the output directory", []))
    if n_reexp or n_placeholder or n_underscore:
        res["nontrivial"].append(f"{pkg['name']}|{n_reexp}|{n_placeholder}|{n_underscore}|{case['out_spelling']}|{case['out_sub']}|{case['src_kind']}|{len(ss.files)}")
    res["stats"] += [f"reexport_stubs={min(n_reexp, 3)}", f"placeholder_stubs={min(n_placeholder, 3)}", f"out:{case['out_spelling']}:{case['out_sub']}", f"src:{case['src_kind']}", f"nc={case['options']['nc']}"]
    if res["sample"] is None and n_reexp and n_placeholder:
        res["sample"] = {"files": sorted(r["stubs"]), "api": r["api_name"], "out": case["out_sub"], "src": case["src_kind"]}
    return res


def run(ctx: Ctx) -> None:
    ctx.rule = (
        "structure-generator trees (depth<=3, private modules/packages, re-exports by name/alias/star/module to the own or "
        "an ancestor package) whose functions also reference classes of other libraries (decimal, fractions, collections, "
        "pathlib, xml.dom.minidom) x -nc on/off x OUT absolute / relative / relative with trailing slash x OUT existing name, "
        "nested non-existing, dotted x SRC = package directory, its parent, or a parent with a dotted name. evaluations = stub files judged; non-trivial = "
        "tree with a re-export stub, a placeholder stub or an underscore-led module path."
    )
    ctx.assumptions = ["the list returned by generate_stub_data is observed (not altered) to count the virtual files; the path rule applied to it is the one the statement gives"]
    failures = engine.search(ctx, MOD, shards=ctx.n(16, 96), examples=ctx.n(20, 50))
    engine.report_failures(ctx, MOD, failures)
    engine.replay_known(ctx, MOD)


def replay(ctx: Ctx, path: str) -> int:
    return engine.replay_cli(ctx, MOD, path)
