"""C11 — every referenced class is declared or imported, and every import resolves.

Domain: packages whose modules reference each other's classes / enums / generic classes in parameter, result, attribute,
superclass and generic-argument positions (same module, sibling module, sub-package, parent package, other libraries),
with and without re-exports, under both naming settings. Oracle: cross-file symbol resolution over the parsed stub set.
"""

from __future__ import annotations

from typing import Any

from hypothesis import strategies as st

from vf import engine, gen, gt, names, ref, sdsparse
from vf.common import Ctx, Discrepancy
from vf.outidx import StubSet
from vf.pipeline import run_case

MOD = "c11"

FOREIGN = [["ext", "decimal", "Decimal"], ["ext", "fractions", "Fraction"], ["ext", "pathlib", "PurePath"], ["ext", "xml.dom.minidom", "Document"], ["ext", "concurrent.futures", "Executor"], ["ext", "concurrent.futures", "Executor"]]  # (Executor lives in concurrent.futures._base: a private path segment)
FOREIGN_GENERIC = [["ext", "collections", "OrderedDict"], ["ext", "collections", "Counter"]]  # rendered Name<Any, ...>: open finding
UNMAPPED_BUILTINS = ["bytes", "object", "complex", "bytearray", "frozenset"]


@st.composite
def _case(draw: Any, args: dict) -> dict:
    extended = args.get("tier") == "thorough"
    namer = gen.Namer()
    pkgname = gen.pkg_name(draw(st.integers(0, 99)))
    layout = [[pkgname, "alpha"], [pkgname, "beta"], [pkgname, "part", "gamma"], [pkgname, "part", "deep", "delta"], [pkgname, "_impl"]]
    n_mod = draw(st.integers(2, 5))
    paths = layout[:n_mod]
    classes: list[dict] = []  # {"ref", "name", "tags", "kind", "arity"}
    modules: list[dict] = []
    inits: dict[str, list] = {}
    for p in paths:
        decls: list[dict] = []
        for _ in range(draw(st.integers(1, 3))):
            kind = draw(st.sampled_from(["class", "class", "class", "enum", "generic"]))
            tags: list[str] = []
            shape = draw(st.integers(0, 11)) if (extended or draw(st.integers(0, 5)) == 0) else 5
            nm = namer.fresh("Ty")
            if shape == 0:
                nm = "_" + nm
                tags.append("ref:private_class")
            elif shape == 1:
                nm = "snake_" + nm.lower()
                tags.append("ref:underscore_class_name_nc")
            if p[-1].startswith("_") and "ref:private_class" not in tags:
                # classes of a private module are public only through a re-export by the package
                alias = None
                if shape == 2:
                    alias = namer.fresh("Alias")
                    tags.append("ref:aliased_reexport")
                inits.setdefault("/".join(p[:-1]), []).append(["from", "." + p[-1], nm, alias])
            r = f"{'.'.join(p)}:{nm}"
            if kind == "enum":
                if p[-1].startswith("_"):
                    tags.append("ref:reexported_enum")
                decls.append(gt.enum(nm, ["A", "B"], tags=tags))
                classes.append({"ref": r, "name": nm, "tags": tags, "kind": "enum", "arity": 0})
            elif kind == "generic":
                tags = [*tags, "ref:generic_class"]
                decls.append(gt.klass(nm, [], tparams=[{"name": "T", "variance": "", "bound": None, "values": []}], tags=tags))
                classes.append({"ref": r, "name": nm, "tags": tags, "kind": "generic", "arity": 1})
            else:
                members = []
                if shape == 3:
                    inner = namer.fresh("Inner")
                    members.append(gt.klass(inner, [], tags=["ref:nested_class"]))
                    classes.append({"ref": f"{'.'.join(p)}:{nm}.{inner}", "name": inner, "tags": ["ref:nested_class"], "kind": "class", "arity": 0})
                decls.append(gt.klass(nm, members, tags=tags))
                classes.append({"ref": r, "name": nm, "tags": tags, "kind": "class", "arity": 0})
        modules.append(gt.module(p, decls))
    # a public class moved by a re-export (origin module public)
    if draw(st.integers(0, 2)) == 0:
        m0 = modules[0]
        nm = namer.fresh("Moved")
        origin_uses = extended and draw(st.booleans())
        tags = ["ref:moved_class_from_origin"] if origin_uses else []
        m0["decls"].append(gt.klass(nm, [], tags=tags))
        classes.append({"ref": f"{'.'.join(m0['path'])}:{nm}", "name": nm, "tags": tags, "kind": "class", "arity": 0, "moved_from": ".".join(m0["path"])})
        inits.setdefault(pkgname, []).append(["from", "." + m0["path"][-1], nm, None])
        if origin_uses:
            m0["decls"].append(gt.func(namer.fresh("uses_moved"), [gt.param("a", "pos", ["cls", classes[-1]["ref"]], None)], ret=["none"]))

    # plain public classes of deeper modules re-exported by a sibling package 'api' (not an ancestor of their module)
    secluded: set[str] = set()
    deep = [(m, d) for m in modules if len(m["path"]) >= 3 and not m["path"][-1].startswith("_") for d in m["decls"] if d["t"] == "class" and not d["tags"] and not d["tparams"] and not d["members"]]
    if deep and draw(st.integers(0, 2)) == 0:
        picks = draw(st.lists(st.sampled_from(range(len(deep))), min_size=min(2, len(deep)), max_size=3, unique=True))
        two_targets = len(picks) >= 2 and draw(st.booleans())
        if len(picks) >= 2 and draw(st.booleans()):
            # names of which one is a prefix of the other (Order / OrderLine), re-exported side by side
            (m1, d1), (m2, d2) = deep[picks[0]], deep[picks[1]]
            own2 = next(c for c in classes if c["ref"] == f"{'.'.join(m2['path'])}:{d2['name']}")
            d2["name"] = d1["name"] + "Line"
            own2["name"] = d2["name"]
            own2["ref"] = f"{'.'.join(m2['path'])}:{d2['name']}"
        for i in picks:
            m, d = deep[i]
            own = next(c for c in classes if c["ref"] == f"{'.'.join(m['path'])}:{d['name']}")
            own["moved_from"] = ".".join(m["path"])
            # ... the last one sometimes by a second sibling package
            target = "zext" if two_targets and i == picks[-1] else "api"
            inits.setdefault(f"{pkgname}/{target}", []).append(["from", ".".join(m["path"]), d["name"], None])
        modules.append(gt.module([pkgname, "api", "tools"], [gt.func(namer.fresh("tool"), [], ret=["str"])]))
        if two_targets:
            modules.append(gt.module([pkgname, "zext", "tools"], [gt.func(namer.fresh("tool"), [], ret=["str"])]))
        # half of the time only re-exported classes reference them (nothing that stays in its module does)
        if draw(st.booleans()):
            for i in picks:
                m, d = deep[i]
                secluded.add(f"{'.'.join(m['path'])}:{d['name']}")

    current: dict[str, Any] = {"mod": None, "moved": False}

    def a_type(depth: int = 1) -> list:
        # a declaration that stays in a module does not reference classes moved out of that module (open finding
        # KF-C11-moved-class-from-origin-name); a moved class may reference anything
        pool = [c for c in classes if current["moved"] or not (c.get("moved_from") == current["mod"] and "ref:moved_class_from_origin" not in c["tags"])]
        if not current["moved"]:
            pool = [c for c in pool if c["ref"] not in secluded]
        if current.get("no_moved"):
            pool = [c for c in pool if not c.get("moved_from")]  # (the members end up in stubs of other modules too)
        c = draw(st.sampled_from(pool))
        if c["kind"] == "generic":
            base: list = ["generic", c["ref"], [a_type(0) if depth else ["int"]]]
        elif c["kind"] == "enum":
            base = ["enum", c["ref"]]
        else:
            base = ["cls", c["ref"]]
        r = draw(st.integers(0, 9))
        if r == 0:
            if extended and draw(st.integers(0, 3)) == 0:
                return draw(st.sampled_from(FOREIGN_GENERIC))
            return draw(st.sampled_from(FOREIGN))
        if r == 1 and (extended or draw(st.integers(0, 4)) == 0):
            return ["raw", draw(st.sampled_from(UNMAPPED_BUILTINS))]
        if r == 2:
            return ["list", base]
        if r == 3:
            return ["dict", ["str"], base]
        if r == 4:
            return ["opt", base]
        if r == 5:
            return ["union", [base, ["int"]]]
        if r == 6:
            return ["callable", [base], ["none"]]
        return base

    # the referenced classes reference classes themselves (also their own class): a class that a package re-exports then
    # carries its references into the re-export stub, next to other re-exported classes that reference it
    by_ref = {c["ref"]: c for c in classes}
    for m in modules:
        current["mod"] = ".".join(m["path"])
        for d in m["decls"]:
            if d["t"] != "class" or d["name"].startswith("_"):
                continue
            own = by_ref.get(f"{current['mod']}:{d['name']}")
            if own is None:
                continue
            current["moved"] = own.get("moved_from") == current["mod"] or m["path"][-1].startswith("_")
            api_refs = [c["ref"] for c in classes if str(c.get("moved_from", "")).count(".") >= 2]
            if own["ref"] in api_refs and len(api_refs) >= 2 and draw(st.integers(0, 2)) > 0:
                # classes re-exported by the same package reference each other (and themselves)
                other = draw(st.sampled_from([r for r in api_refs if r != own["ref"]]))
                d["members"].append(gt.func(namer.fresh("peer"), [gt.param(namer.fresh("o"), "pos", ["cls", own["ref"]], None)], ret=["list", ["cls", other]], kind="method"))
            if own["kind"] == "class" and draw(st.integers(0, 2)) == 0:
                d["members"].append(gt.func(namer.fresh("same"), [gt.param(namer.fresh("o"), "pos", ["cls", own["ref"]], None)], ret=["cls", own["ref"]], kind="method"))
            for _ in range(draw(st.sampled_from([0, 0, 1, 2]))):
                d["members"].append(gt.func(namer.fresh("tm"), [gt.param(namer.fresh("q"), "pos", a_type(), None)], ret=a_type(), kind="method"))
    current["moved"] = False
    # a private class whose public methods reference classes, inherited by public classes of two different modules (the
    # inherited members are written into each subclass' stub, which then needs the imports too)
    if len(modules) >= 2 and draw(st.booleans()):
        home = modules[0]
        current["mod"] = ".".join(home["path"])
        mix = "_" + namer.fresh("Mix")
        current["no_moved"] = True
        home["decls"].append(gt.klass(mix, [gt.func(namer.fresh("inh"), [gt.param(namer.fresh("q"), "pos", a_type(), None)], ret=a_type(), kind="method") for _ in range(draw(st.integers(1, 2)))]))
        plain = [m for m in modules if not (m["path"][-1] == "tools" and m["path"][-2] in {"api", "zext"}) and not m["path"][-1].startswith("_")]
        for m in plain[: draw(st.integers(2, 3))]:
            m["decls"].append(gt.klass(namer.fresh("Heir"), [], bases=[["raw", mix, [".".join(home["path"]), mix]]]))
        current["no_moved"] = False
    for m in modules:
        current["mod"] = ".".join(m["path"])
        if m["path"][-1] == "tools" and m["path"][-2] in {"api", "zext"}:
            continue
        for _ in range(draw(st.integers(1, 3))):
            params = [gt.param(namer.fresh("p"), "pos", a_type(), None) for _ in range(draw(st.integers(1, 3)))]
            m["decls"].append(gt.func(namer.fresh("fn"), params, ret=a_type()))
        for _ in range(draw(st.integers(0, 2))):
            publics = [c for c in classes if c["ref"] not in secluded and c["kind"] == "class" and "ref:nested_class" not in c["tags"] and not c["name"].startswith("_") and not (c.get("moved_from") == current["mod"] and "ref:moved_class_from_origin" not in c["tags"])]
            bases = []
            if publics:
                for c in draw(st.lists(st.sampled_from(publics), max_size=2, unique_by=lambda c: c["ref"])):
                    bases.append(["cls", c["ref"]])
            members = [gt.attr(namer.fresh("at"), a_type(), None) for _ in range(draw(st.integers(0, 2)))]
            members.append(gt.func(namer.fresh("me"), [gt.param(namer.fresh("q"), "pos", a_type(), None)], ret=a_type(), kind="method"))
            ctor = gt.func("__init__", [gt.param(namer.fresh("cp"), "pos", a_type(), None)], kind="method") if draw(st.booleans()) else None
            m["decls"].append(gt.klass(namer.fresh("User"), members, bases=bases, ctor=ctor))
    return {"pkg": gt.package(pkgname, modules, inits), "options": {"nc": draw(st.booleans())}, "classes": classes}


def strategy(args: dict) -> st.SearchStrategy:
    return _case(args)


def type_params_in_scope(d: sdsparse.Decl) -> set[str]:
    return {tp[1] for tp in d.type_params}


def judge(case: dict) -> dict:
    pkg = case["pkg"]
    nc = bool(case["options"].get("nc"))
    files = gt.render_package(pkg)
    gt.check_compiles(files)
    r = run_case(files, case.get("options"), src=pkg["name"])
    discs: list[Discrepancy] = []
    res: dict[str, Any] = {"discs": discs, "nontrivial": [], "evals": 0, "stats": [], "sample": None}
    if r["status"] != "ok":
        discs.append(Discrepancy.make("run_failed", pkg["name"], f"{r['exc']['bucket']}: {r['exc']['msg']}", [], bucket=r["exc"]["bucket"]))
        return res
    ss = StubSet(r["stubs"])
    for rel, e in ss.errors.items():
        discs.append(Discrepancy.make("stub_unparsable", rel, str(e), []))
    # symbol table of the whole output: Safe-DS package -> top-level declaration names
    table: dict[str, set[str]] = {}
    for sf in ss.files.values():
        table.setdefault(sf.package, set()).update(d.name for d in sf.members)
    # tags by class name (python name and both renderings)
    tag_of: dict[str, list[str]] = {}
    for c in case["classes"]:
        for n in {c["name"], names.ref_convert(c["name"], True), names.ref_convert(c["name"], False)}:
            tag_of.setdefault(n, [])
            tag_of[n] = sorted(set(tag_of[n]) | set(c["tags"]))
        # the alias of an aliased re-export names the same class
    for stmts in pkg["inits"].values():
        for st_ in stmts:
            if st_[0] == "from" and st_[3]:
                tag_of.setdefault(st_[3], []).append("ref:aliased_reexport")
    for b in UNMAPPED_BUILTINS:
        tag_of.setdefault(b, []).append("ref:unmapped_builtin")
    for g in FOREIGN_GENERIC:
        tag_of.setdefault(g[2], []).append("ref:generic_class")

    def tags_for(name: str) -> list[str]:
        t = list(tag_of.get(name, []))
        if nc and "ref:underscore_class_name_nc" in t:
            return t
        return [x for x in t if x != "ref:underscore_class_name_nc"] if not nc else t

    cross = 0
    for rel, sf in ss.files.items():
        imported = {(alias or n) for _p, n, alias in sf.imports}
        same_package = table.get(sf.package, set())
        declared_here: set[str] = set()
        for _o, d in sf.walk():
            if d.kind in {"class", "enum"}:
                declared_here.add(d.name)
        for ipkg, n, _alias in sf.imports:
            res["evals"] += 1
            if ipkg not in table:
                discs.append(Discrepancy.make("import_unresolved", f"{rel}: from {ipkg} import {n}", f"no stub file declares package {ipkg!r}", tags_for(n)))
            elif n not in table[ipkg]:
                discs.append(Discrepancy.make("import_unresolved", f"{rel}: from {ipkg} import {n}", f"package {ipkg!r} declares {sorted(table[ipkg])[:6]}, not {n!r}", tags_for(n)))
            if ipkg != sf.package:
                cross += 1

        def check_refs(t: Any, scope: set[str], where: str) -> None:
            for name in sdsparse.named_refs(t):
                res["evals"] += 1
                short = name
                if short in ref.BUILTIN_SDS_NAMES or short in scope or short in declared_here or short in imported:
                    continue
                where_else = " (another stub file of the same Safe-DS package declares it)" if short in same_package else ""
                discs.append(Discrepancy.make("unresolved_type_name", f"{rel}: {short} in {where}", "neither a built-in mapping, declared in this file nor imported in this file" + where_else, tags_for(short)))

        def walk(d: sdsparse.Decl, scope: set[str]) -> None:
            sc = scope | type_params_in_scope(d)
            for _v, _n, bound in d.type_params:
                check_refs(bound, sc, f"type parameter of {d.name}")
            for p in d.params or []:
                check_refs(p.type, sc, f"parameter {p.name} of {d.name}")
            for _n, t in d.results:
                check_refs(t, sc, f"result of {d.name}")
            if d.type is not None:
                check_refs(d.type, sc, f"attribute {d.name}")
            for s in d.supers:
                check_refs(s, sc, f"superclass of {d.name}")
            for m in d.members:
                walk(m, sc)

        for d in sf.members:
            walk(d, set())
    if cross:
        res["nontrivial"].append(f"{pkg['name']}|{cross}|{len(ss.files)}|{nc}")
    res["stats"] += [f"cross_module_imports={min(cross, 5)}", f"nc={nc}", f"placeholder_stubs={sum(1 for sf in ss.files.values() if sf.package.split('.')[0] != names.rendered(pkg['name'], nc))}"]
    if res["sample"] is None and cross >= 3:
        rel = max(ss.files, key=lambda k: len(ss.files[k].imports))
        res["sample"] = {"file": rel, "imports": [f"from {a} import {b}" for a, b, _ in ss.files[rel].imports], "packages_in_output": sorted(table)[:10]}
    return res


def run(ctx: Ctx) -> None:
    ctx.rule = (
        "packages of 2-5 modules (root, sub-package, sub-sub-package, private module) defining classes, enums and generic "
        "classes, whose functions, methods, constructors, attributes and superclass lists reference classes of any module "
        "(plain, in list/dict/optional/union/callable, as generic with class arguments) and of other libraries; private "
        "modules re-export their classes by name; one class may be moved by a re-export. evaluations = type references + "
        "import lines resolved; non-trivial = output with >=1 import from another package."
    )
    ctx.assumptions = [
        "extended reference classes (generic classes from other modules, private / nested / aliased / snake_case-under-nc classes, unmapped builtins, a moved class used in its origin module) are open findings, drawn rarely in the quick tier",
    ]
    failures = engine.search(ctx, MOD, shards=ctx.n(16, 96), examples=ctx.n(20, 50))
    engine.report_failures(ctx, MOD, failures)
    engine.replay_known(ctx, MOD)


def replay(ctx: Ctx, path: str) -> int:
    return engine.replay_cli(ctx, MOD, path)
