"""C13 — docstring text reaches the right element intact, whatever the style.

E1/E4: a documentation model with a unique token in every text unit (module, class, constructor parameters, function,
each parameter, each result, each attribute, each example line) is rendered into NumPy, Google, reST and plain text;
declaration order is permuted and parameter names repeat across functions (this drives the order in which the one-entry
docstring cache is queried). The doc comment in front of every stub declaration must equal, line for line, the expected
comment derived from the model; since the expected comment is the same for the three structured styles, agreement with
it is also the cross-style relation.
E3: a RuleBasedStateMachine holds ONE DocstringParser over a generated package and queries class / function /
parameter / attribute / result documentation of arbitrary elements in arbitrary order; every answer must equal the
model's text for that element, independent of the history of queries.
"""

from __future__ import annotations

import json
import traceback
from pathlib import Path
from typing import Any

import hypothesis
from hypothesis import HealthCheck, Phase, settings
from hypothesis import strategies as st
from hypothesis.stateful import RuleBasedStateMachine, initialize, invariant, rule, run_state_machine_as_test

from vf import engine, gen, gt, names, sdsparse
from vf.common import Ctx, Discrepancy, HarnessError, Known, derive_seed
from vf.outidx import StubSet
from vf.pipeline import run_case, write_files

MOD = "c13"
STRUCTURED = ["NUMPYDOC", "GOOGLE", "REST"]
PARAM_NAMES = ["a", "b", "value", "other_arg", "value_", "_b"]  # twins that differ only by an underscore (seeded change C13_r5)


# ---- documentation model ---------------------------------------------------------------------------------------------
# element doc: {"desc": [[line, ...] paragraph, ...], "params": {name: [line, ...]}, "result": [line]|None,
#               "result_name": str, "attrs": {name: [line]}, "examples": [[code line, ...], ...], "init_text": str|None}


class Tok:
    def __init__(self) -> None:
        self.n = 0

    def line(self, kind: str) -> str:
        self.n += 1
        return f"TK{self.n}{kind} some words here"


@st.composite
def _doc(draw: Any, tok: Tok, param_names: list[str], with_result: bool, attr_names: list[str], multi: bool, examples_ok: bool) -> dict:
    desc = [[tok.line("d") for _ in range(draw(st.integers(1, 2)))] for _ in range(draw(st.integers(1, 3)))]
    params = {}
    for p in param_names:
        if draw(st.booleans()):
            params[p] = [tok.line("p")] + ([tok.line("p")] if multi and draw(st.booleans()) else [])
    result = [tok.line("r")] if with_result and draw(st.booleans()) else None
    attrs = {a: [tok.line("a")] for a in attr_names if draw(st.booleans())}
    examples = []
    if examples_ok and draw(st.integers(0, 2)) == 0:
        for _ in range(draw(st.integers(1, 2))):
            ex = [">>> " + tok.line("e")] + (["... " + tok.line("e")] if draw(st.booleans()) else [])
            # further statements of the same block, each possibly preceded by the expected output of the previous one
            for _ in range(draw(st.sampled_from([0, 0, 1, 2]))):
                if draw(st.booleans()):
                    ex.append("out" + tok.line("o"))
                ex.append(">>> " + tok.line("e"))
                if draw(st.integers(0, 2)) == 0:
                    ex.append("... " + tok.line("e"))
            if draw(st.integers(0, 2)) == 0:
                ex.append("out" + tok.line("o"))
            examples.append(ex)
    return {"desc": desc, "params": params, "result": result, "attrs": attrs, "examples": examples}


def render_docstring(style: str, d: dict, result_type: str = "int") -> str:
    lines: list[str] = []
    for i, para in enumerate(d["desc"]):
        if i:
            lines.append("")
        lines += para
    if style == "PLAINTEXT":
        # plain text keeps everything: write the other units as free paragraphs
        for p, ls in d["params"].items():
            lines += ["", f"{p} - {ls[0]}", *ls[1:]]
        if d["result"]:
            lines += ["", f"gives {d['result'][0]}"]
        for a, ls in d["attrs"].items():
            lines += ["", f"{a} holds {ls[0]}"]
        for ex in d["examples"]:
            lines += ["", *ex]
        return "\n".join(lines)
    if style == "NUMPYDOC":
        if d["params"]:
            lines += ["", "Parameters", "----------"]
            for p, ls in d["params"].items():
                lines += [f"{p} : int", *[f"    {x}" for x in ls]]
        if d["result"]:
            lines += ["", "Returns", "-------", result_type, f"    {d['result'][0]}"]
        if d["attrs"]:
            lines += ["", "Attributes", "----------"]
            for a, ls in d["attrs"].items():
                lines += [f"{a} : int", *[f"    {x}" for x in ls]]
        if d["examples"]:
            lines += ["", "Examples", "--------"]
            for i, ex in enumerate(d["examples"]):
                if i:
                    lines += [""]
                lines += ex
    elif style == "GOOGLE":
        if d["params"]:
            lines += ["", "Args:"]
            for p, ls in d["params"].items():
                lines += [f"    {p} (int): {ls[0]}", *[f"        {x}" for x in ls[1:]]]
        if d["result"]:
            lines += ["", "Returns:", f"    r ({result_type}): {d['result'][0]}"]
        if d["attrs"]:
            lines += ["", "Attributes:"]
            for a, ls in d["attrs"].items():
                lines += [f"    {a} (int): {ls[0]}"]
        if d["examples"]:
            lines += ["", "Examples:"]
            for i, ex in enumerate(d["examples"]):
                if i:
                    lines += [""]
                lines += [f"    {x}" for x in ex]
    elif style == "REST":
        if d["params"] or d["result"] or d["attrs"]:
            lines.append("")
        for p, ls in d["params"].items():
            lines += [f":param {p}: {ls[0]}"]
        if d["result"]:
            lines += [f":returns: {d['result'][0]}", f":rtype: {result_type}"]
        for a, ls in d["attrs"].items():
            lines += [f":ivar {a}: {ls[0]}"]
    return "\n".join(lines)


def expected_comment(d: dict, param_order: list[str], result_name: str | None, nc: bool, with_examples: bool) -> list[str]:
    out: list[str] = []
    for i, para in enumerate(d["desc"]):
        if i:
            out.append("")
        out += para
    plines: list[str] = []
    for p in param_order:
        if p in d["params"]:
            ls = d["params"][p]
            plines.append(f"@param {names.rendered(p, nc)} {ls[0]}")
            plines += ls[1:]
    if plines:
        out += ["", *plines] if out else plines
    if d["result"] and result_name is not None:
        rl = [f"@result {names.rendered(result_name, nc)} {d['result'][0]}"]
        out += ["", *rl] if out else rl
    if with_examples and d["examples"]:
        if out:
            out.append("")
        for i, ex in enumerate(d["examples"]):
            if i:
                out.append("")
            out += ["@example", "pipeline example {"]
            for ln in ex:
                if not (ln.startswith(">>>") or ln.startswith("...")):
                    continue  # expected output is not code
                out.append("    // " + ln[4:].strip() if ln[3:4] != " " else "    //" + ln[3:])
            out.append("}")
    return out


@st.composite
def _model(draw: Any, args: dict) -> dict:
    tok = Tok()
    namer = gen.Namer()
    pk = gen.pkg_name(draw(st.integers(0, 99)))
    multi = draw(st.booleans())  # multi-line parameter descriptions (not for reST: it joins continuation lines)
    elems: list[dict] = []

    def pnames() -> list[str]:
        k = draw(st.integers(0, 3))
        return list(draw(st.permutations(PARAM_NAMES))[:k])

    def func(kind: str) -> dict:
        ps = pnames()
        return {"t": "func", "kind": kind, "name": namer.fresh("fn" if kind == "function" else "me"), "params": ps, "doc": draw(_doc(tok, ps, True, [], multi, True)) if draw(st.integers(0, 4)) else None}

    def cls(depth: int = 0) -> dict:
        ps = pnames()
        has_ctor = draw(st.booleans())
        attrs = [namer.fresh("at") for _ in range(draw(st.integers(0, 2)))]
        iattrs = [namer.fresh("ia") for _ in range(draw(st.integers(0, 2)))] if has_ctor else []
        members: list[dict] = [func(draw(st.sampled_from(["method", "method", "static", "classmethod"]))) for _ in range(draw(st.integers(0, 2)))]
        pool = list(draw(st.permutations(["run", "reset", "compute"])))
        for mm in members:
            if draw(st.booleans()):
                mm["name"] = pool.pop()  # the same method name may occur in several classes
        if draw(st.booleans()):
            members.append({"t": "prop", "name": namer.fresh("prop"), "doc": {"desc": [[tok.line("d")]], "params": {}, "result": None, "attrs": {}, "examples": []} if draw(st.booleans()) else None})
        if depth < 1 and draw(st.integers(0, 2)) == 0:
            members.append(cls(depth + 1))
        order = draw(st.permutations(range(len(members))))
        return {
            "t": "class", "name": namer.fresh("Cls"), "ctor_params": ps if has_ctor else None, "attrs": attrs, "iattrs": iattrs,
            "members": [members[i] for i in order],
            "doc": draw(_doc(tok, ps if has_ctor else [], False, attrs + iattrs, multi, True)) if draw(st.integers(0, 4)) else None,
            "init_text": tok.line("i") if has_ctor and draw(st.booleans()) else None,
            "params_in_init": has_ctor and draw(st.integers(0, 2)) == 0,
            "ctor_first": draw(st.booleans()),
        }  # fmt: skip

    for _ in range(draw(st.integers(2, 5))):
        elems.append(func("function"))
    for _ in range(draw(st.integers(1, 3))):
        elems.append(cls())
    order = draw(st.permutations(range(len(elems))))
    return {"pkgname": pk, "module_doc": {"desc": [[tok.line("d")] for _ in range(draw(st.integers(1, 2)))], "params": {}, "result": None, "attrs": {}, "examples": []} if draw(st.booleans()) else None, "elems": [elems[i] for i in order], "multi": multi, "nc": draw(st.booleans())}


def strategy(args: dict) -> st.SearchStrategy:
    return _model(args)


def doc_literal(text: str, ind: str) -> list[str]:
    lines = text.split("\n")
    out = [f'{ind}"""{lines[0]}']
    for ln in lines[1:]:
        out.append(f"{ind}{ln}" if ln else "")
    out.append(f'{ind}"""')
    return out


def render_source(model: dict, style: str) -> str:
    out: list[str] = []
    if model["module_doc"]:
        out += doc_literal(render_docstring(style, model["module_doc"]), "")
    out.append("from __future__ import annotations")

    def emit_func(f: dict, ind: str, method: bool) -> None:
        recv = {"method": ["self"], "static": [], "classmethod": ["cls"]}.get(f.get("kind", "method"), ["self"]) if method else []
        ps = recv + [f"{p}: int" for p in f["params"]]
        if method and f.get("kind") in {"static", "classmethod"}:
            out.append(f"{ind}@{'staticmethod' if f['kind'] == 'static' else 'classmethod'}")
        out.append(f"{ind}def {f['name']}({', '.join(ps)}) -> int:")
        if f["doc"]:
            out.extend(doc_literal(render_docstring(style, f["doc"]), ind + "    "))
        out.append(f"{ind}    return 0")
        out.append("")

    def emit_class(c: dict, ind: str) -> None:
        out.append(f"{ind}class {c['name']}:")
        inner = ind + "    "
        in_init = bool(style == "NUMPYDOC" and c.get("params_in_init") and c["doc"] and c["doc"]["params"])
        if c["doc"]:
            out.extend(doc_literal(render_docstring(style, {**c["doc"], "params": {}} if in_init else c["doc"]), inner))
        for a in c["attrs"]:
            out.append(f"{inner}{a}: int = 0")
        out.append("")

        def ctor() -> None:
            if c["ctor_params"] is not None:
                out.append(f"{inner}def __init__({', '.join(['self'] + [p + ': int' for p in c['ctor_params']])}):")
                if in_init:
                    out.extend(doc_literal(render_docstring(style, {"desc": [[c["init_text"] or "Constructor."]], "params": c["doc"]["params"], "result": None, "attrs": {}, "examples": []}), inner + "    "))
                elif c["init_text"]:
                    out.extend(doc_literal(c["init_text"], inner + "    "))
                for ia in c["iattrs"]:
                    out.append(f"{inner}    self.{ia}: int = 0")
                if not c["iattrs"] and not c["init_text"] and not in_init:
                    out.append(f"{inner}    pass")
                out.append("")

        if c["ctor_first"]:
            ctor()
        for m in c["members"]:
            if m["t"] == "func":
                emit_func(m, inner, True)
            elif m["t"] == "prop":
                out.append(f"{inner}@property")
                out.append(f"{inner}def {m['name']}(self) -> int:")
                if m["doc"]:
                    out.extend(doc_literal(render_docstring(style, m["doc"]), inner + "    "))
                out.append(f"{inner}    return 0")
                out.append("")
            else:
                emit_class(m, inner)
        if not c["ctor_first"]:
            ctor()
        if not c["members"] and c["ctor_params"] is None and not c["attrs"] and not c["doc"]:
            out.append(f"{inner}pass")
        out.append("")

    for e in model["elems"]:
        out.append("")
        if e["t"] == "func":
            emit_func(e, "", False)
        else:
            emit_class(e, "")
    return "\n".join(out) + "\n"


def walk_model(elems: list[dict], owner: tuple[str, ...] = ()):  # noqa: ANN201
    for e in elems:
        yield owner, e
        if e["t"] == "class":
            yield from walk_model(e["members"], (*owner, e["name"]))


def plain_lines(text: str) -> list[str]:
    return [ln.rstrip() for ln in text.split("\n")]


def judge(case: dict) -> dict:
    if "history" in case:
        return judge_history(case)
    model = case
    pk = model["pkgname"]
    nc = bool(model.get("nc"))
    res: dict[str, Any] = {"discs": [], "nontrivial": [], "evals": 0, "stats": [], "sample": None}
    discs = res["discs"]
    n_doc_ctor = sum(1 for _o, e in walk_model(model["elems"]) if e["t"] == "class" and e["ctor_params"] is not None and e["doc"])
    for style in ["NUMPYDOC", "GOOGLE", "REST", "PLAINTEXT"]:
        m = model
        if style == "REST":
            # common subset for reST: single-line parameter descriptions, no examples
            m = json.loads(json.dumps(model))
            for _o, e in walk_model(m["elems"]):
                if e.get("doc"):
                    e["doc"]["params"] = {k: v[:1] for k, v in e["doc"]["params"].items()}
                    e["doc"]["examples"] = []
        src = render_source(m, style)
        try:
            compile(src, "m.py", "exec")
        except SyntaxError as e:
            return {**res, "harness_error": f"generated module does not compile: {e}\n{src[:800]}"}
        files = {f"{pk}/__init__.py": "", f"{pk}/docmod.py": src}
        r = run_case(files, {"docstyle": style, "nc": nc}, src=pk)
        res["evals"] += 1
        if r["status"] != "ok":
            discs.append(Discrepancy.make("run_failed", style, f"{r['exc']['bucket']}: {r['exc']['msg'][:200]}", [], bucket=r["exc"]["bucket"]))
            continue
        ss = StubSet(r["stubs"])
        for rel, e in ss.errors.items():
            discs.append(Discrepancy.make("stub_unparsable", f"{style}:{rel}", str(e), []))
        if not ss.files:
            continue
        sf = next(iter(ss.files.values()))
        # module documentation
        exp_mod = expected_comment(m["module_doc"], [], None, nc, False) if m["module_doc"] else []
        if style == "PLAINTEXT" and m["module_doc"]:
            exp_mod = plain_lines(render_docstring(style, m["module_doc"]))
        if sdsparse.doc_lines(sf.doc) != exp_mod:
            discs.append(Discrepancy.make("doc_comment_differs", f"{style}: module", f"stub {sdsparse.doc_lines(sf.doc)[:4]} != expected {exp_mod[:4]}", [f"style:{style}"]))

        def check(chain: tuple[str, ...], kind: str, expected: list[str], what: str) -> None:
            res["evals"] += 1
            hit = ss.one(*chain, kind=kind)
            if hit is None:
                discs.append(Discrepancy.make("decl_not_found_once", f"{style}: {'.'.join(chain)}", f"{len(ss.find(*chain))} declarations", [f"style:{style}"]))
                return
            got = sdsparse.doc_lines(hit[1].prefix.doc)
            if got != expected:
                i = next((k for k, (x, y) in enumerate(zip(got, expected)) if x != y), min(len(got), len(expected)))
                discs.append(
                    Discrepancy.make(
                        "doc_comment_differs", f"{style}: {what} {'.'.join(chain)}",
                        f"line {i + 1}: stub {got[i] if i < len(got) else '<end>'!r} vs expected {expected[i] if i < len(expected) else '<end>'!r} (stub has {len(got)} lines, expected {len(expected)})",
                        [f"style:{style}"],
                    ),
                )  # fmt: skip

        for owner, e in walk_model(m["elems"]):
            chain = (*owner, e["name"])
            if e["t"] == "func":
                d = e["doc"]
                if style == "PLAINTEXT":
                    exp = plain_lines(render_docstring(style, d)) if d else []
                else:
                    exp = expected_comment(d, e["params"], "result_1", nc, True) if d else []
                check(chain, "fun", exp, "function")
            elif e["t"] == "prop":
                d = e["doc"]
                exp = [ln for para_i, para in enumerate(d["desc"]) for ln in ([""] if para_i else []) + para] if d else []
                check(chain, "attr", exp, "property")
            else:
                d = e["doc"]
                if style == "PLAINTEXT":
                    exp = plain_lines(render_docstring(style, d)) if d else []
                else:
                    exp = expected_comment(d, e["ctor_params"] or [], None, nc, True) if d else []
                check(chain, "class", exp, "class")
                for a in e["attrs"] + e["iattrs"]:
                    ad = (d or {}).get("attrs", {}).get(a) if style != "PLAINTEXT" else None
                    check((*chain, a), "attr", list(ad) if ad else [], "attribute")
    same_params = len({tuple(e["params"]) for _o, e in walk_model(model["elems"]) if e["t"] == "func" and e["params"]}) < sum(1 for _o, e in walk_model(model["elems"]) if e["t"] == "func" and e["params"])
    if n_doc_ctor >= 2 or same_params:
        res["nontrivial"].append(f"{pk}|{n_doc_ctor}|{same_params}|{len(model['elems'])}|{model['multi']}")
    res["stats"] += [f"documented_constructors={min(n_doc_ctor, 3)}", f"multi_line_params={model['multi']}", f"nc={nc}"]
    if res["sample"] is None:
        res["sample"] = {"numpydoc_source_excerpt": render_source(model, "NUMPYDOC")[:700]}
    return res


# ---- E3: history of queries on one DocstringParser ---------------------------------------------------------------------------
class ParserHarness:
    def __init__(self, model: dict, style: str) -> None:
        import os
        import tempfile

        from safeds_stubgen.api_analyzer._get_api import _get_mypy_build
        from safeds_stubgen.docstring_parsing import DocstringStyle, create_docstring_parser

        self.model = model
        self.style = style
        pk = model["pkgname"]
        self.base = Path(tempfile.mkdtemp(prefix="vfc13_"))
        m = model
        if style == "REST":
            m = json.loads(json.dumps(model))
            for _o, e in walk_model(m["elems"]):
                if e.get("doc"):
                    e["doc"]["params"] = {k: v[:1] for k, v in e["doc"]["params"].items()}
                    e["doc"]["examples"] = []
        self.m = m
        write_files(self.base / "s", {f"{pk}/__init__.py": "", f"{pk}/docmod.py": render_source(m, style)})
        cwd = os.getcwd()
        (self.base / "cwd").mkdir()
        os.chdir(self.base / "cwd")
        try:
            build = _get_mypy_build([str(self.base / "s" / pk / "docmod.py")])
            self.parser = create_docstring_parser(style=DocstringStyle[style], package_path=self.base / "s" / pk)
        finally:
            os.chdir(cwd)
        tree = build.graph[f"{pk}.docmod"].tree
        self.nodes: dict[tuple[str, ...], Any] = {}
        self._index(tree.defs, ())
        self.queries: list[tuple] = []
        for owner, e in walk_model(m["elems"]):
            chain = (*owner, e["name"])
            if e["t"] == "func":
                self.queries.append(("function", chain))
                for p in e["params"]:
                    self.queries.append(("param", chain, p))
                self.queries.append(("result", chain))
            elif e["t"] == "class":
                self.queries.append(("class", chain))
                for p in e["ctor_params"] or []:
                    self.queries.append(("ctor_param", chain, p))
                if e["ctor_params"] is not None:
                    self.queries.append(("init_doc", chain))
                for a in e["attrs"] + e["iattrs"]:
                    self.queries.append(("attr", chain, a))
        self.elems = {(*o, e["name"]): e for o, e in walk_model(m["elems"])}
        self.history: list[int] = []
        self.discs: list[Discrepancy] = []

    def _index(self, defs: list, owner: tuple[str, ...]) -> None:
        import mypy.nodes as mn

        for d in defs:
            if isinstance(d, mn.Decorator):
                d = d.func
            if isinstance(d, mn.FuncDef):
                self.nodes[(*owner, d.name)] = d
            elif isinstance(d, mn.ClassDef):
                self.nodes[(*owner, d.name)] = d
                self._index(d.defs.body, (*owner, d.name))

    def close(self) -> None:
        import shutil

        shutil.rmtree(self.base, ignore_errors=True)

    @staticmethod
    def text(paras: list[list[str]]) -> str:
        return "\n\n".join("\n".join(p) for p in paras)

    def ask(self, qi: int) -> None:
        q = self.queries[qi % len(self.queries)]
        self.history.append(qi % len(self.queries))
        kind, chain = q[0], q[1]
        e = self.elems[chain]
        d = e.get("doc")
        pk = self.model["pkgname"]
        fq = ".".join([pk, "docmod", *chain])
        got: Any
        want: Any
        if kind == "function":
            got = self.parser.get_function_documentation(self.nodes[chain]).description
            want = self.text(d["desc"]) if d else ""
        elif kind == "class":
            got = self.parser.get_class_documentation(self.nodes[chain]).description
            want = self.text(d["desc"]) if d else ""
        elif kind == "param":
            got = self.parser.get_parameter_documentation(function_qname=fq, parameter_name=q[2], parent_class_qname="/".join([pk, "docmod", *chain[:-1]]) if len(chain) > 1 else "").description
            want = "\n".join(d["params"].get(q[2], [])) if d else ""
        elif kind == "ctor_param":
            got = self.parser.get_parameter_documentation(function_qname=fq + ".__init__", parameter_name=q[2], parent_class_qname="/".join([pk, "docmod", *chain])).description
            want = "\n".join(d["params"].get(q[2], [])) if d else ""
        elif kind == "init_doc":
            in_init = bool(self.style == "NUMPYDOC" and e.get("params_in_init") and d and d["params"])
            got = self.parser.get_function_documentation(self.nodes[(*chain, "__init__")]).description
            want = (e["init_text"] or "Constructor.") if in_init else (e["init_text"] or "")
        elif kind == "attr":
            got = self.parser.get_attribute_documentation("/".join([pk, "docmod", *chain]), q[2]).description
            want = "\n".join(d["attrs"].get(q[2], [])) if d else ""
        else:
            rs = self.parser.get_result_documentation(fq)
            got = [r.description for r in rs]
            want = [d["result"][0]] if d and d["result"] else []
        if self.style == "PLAINTEXT":
            return
        if got != want:
            self.discs.append(Discrepancy.make("parser_answer_depends_on_history_or_is_wrong", f"{self.style}: {kind} {'.'.join(chain)} {q[2] if len(q) > 2 else ''}", f"answer {got!r}, model {want!r}; history of query indices {self.history[-6:]}", [f"style:{self.style}"]))


def judge_history(case: dict) -> dict:
    res: dict[str, Any] = {"discs": [], "nontrivial": [], "evals": 0, "stats": [], "sample": None}
    h = ParserHarness(case["model"], case["style"])
    try:
        for qi in case["history"]:
            h.ask(qi)
            res["evals"] += 1
        res["discs"] = h.discs
    finally:
        h.close()
    return res


_FAIL: dict[str, Any] = {}


def machine_shard(payload: tuple) -> dict:
    _modname, args = payload
    res = engine.new_result()
    known = Known(args["prop"])
    stats = res["stats"]

    class Queries(RuleBasedStateMachine):
        def __init__(self) -> None:
            super().__init__()
            self.h: ParserHarness | None = None

        @initialize(model=_model({}), style=st.sampled_from(STRUCTURED))
        def setup(self, model: dict, style: str) -> None:
            self.h = ParserHarness(model, style)
            res["cases"] += 1
            stats[f"machine_style:{style}"] += 1

        @rule(qi=st.integers(0, 10_000))
        def query(self, qi: int) -> None:
            assert self.h is not None
            if not self.h.queries:
                return
            self.h.ask(qi)
            res["evals"] += 1

        @invariant()
        def holds(self) -> None:
            if self.h is None:
                return
            new, _k = known.split(self.h.discs)
            if new:
                _FAIL["last"] = {"discs": new[:5], "case": {"model": self.h.model, "style": self.h.style, "history": list(self.h.history)}}
                raise AssertionError(new[0]["kind"])

        def teardown(self) -> None:
            if self.h is not None:
                if len(self.h.history) >= 10:
                    res["nontrivial"].append(f"{self.h.model['pkgname']}|{self.h.style}|{len(set(self.h.history))}")
                if not res["samples"] and len(self.h.history) >= 5:
                    res["samples"].append({"style": self.h.style, "queries": [self.h.queries[i][:3] for i in self.h.history[:8]]})
                self.h.close()

    try:
        phases = [Phase.generate] + ([Phase.shrink] if args.get("shrink") else [])
        machine = hypothesis.seed(derive_seed(args["prop"], "machine", args["seed"], args["shard"]))(Queries)
        try:
            run_state_machine_as_test(
                machine,
                settings=settings(max_examples=args["examples"], stateful_step_count=args.get("steps", 50), database=None, deadline=None, phases=phases, suppress_health_check=list(HealthCheck), report_multiple_bugs=False, print_blob=False),
            )
        except BaseException as e:  # noqa: BLE001
            if isinstance(e, (KeyboardInterrupt, SystemExit)) or "last" not in _FAIL:
                raise
            res["failures"].append(_FAIL.pop("last"))
    except HarnessError as e:
        res["harness_errors"].append(str(e))
    except Exception as e:  # noqa: BLE001
        res["harness_errors"].append(f"{type(e).__name__}: {e}\n{traceback.format_exc()[-1500:]}")
    res["stats"] = dict(stats)
    res["known_hits"] = dict(known.hits)
    return res


def candidates(case: dict) -> list[dict]:
    out = []
    if "history" in case:
        h = case["history"]
        for i in range(len(h)):
            out.append({**case, "history": h[:i] + h[i + 1 :]})
        return out
    for i in range(len(case["elems"])):
        if len(case["elems"]) > 1:
            out.append({**case, "elems": case["elems"][:i] + case["elems"][i + 1 :]})
    if case.get("module_doc"):
        out.append({**case, "module_doc": None})
    return out


def run(ctx: Ctx) -> None:
    ctx.rule = (
        "documentation models (module, 2-5 functions, 1-3 classes with optional constructor, class and instance attributes, "
        "methods, a property, a nested class) with a unique token on every line of every text unit (1-3 paragraphs of 1-2 "
        "lines, parameter / result / attribute descriptions, example code lines), parameter names drawn from a pool of 4 so "
        "that they repeat across functions and constructors, declaration order permuted, constructor before or after the "
        "methods; each model is rendered and run in NumPy, Google, reST and plain style (4 runs) and every doc comment is "
        "compared line for line with the expected comment; plus state machines querying one DocstringParser in arbitrary "
        "order (<=50 steps). evaluations = runs + compared comments + parser queries; non-trivial = model with >=2 documented "
        "constructors or repeated parameter lists / machine run with >=10 queries."
    )
    ctx.assumptions = [
        "common subset: reST gets single-line parameter descriptions and no examples (it joins continuation lines and has no example section); result names are judged under NumPy only (C07)",
        "the free text of an __init__ docstring has no element of its own in a stub: its token must not appear anywhere (it is not compared, only absent from every expected comment)",
        "plain text: the whole cleaned docstring is the description of its element",
    ]
    failures = engine.search(ctx, MOD, shards=ctx.n(16, 96), examples=ctx.n(3, 12))
    payloads = [(MOD, {"prop": ctx.prop, "seed": ctx.seed, "shard": s, "examples": ctx.n(3, 12), "steps": 50, "shrink": ctx.tier == "thorough"}) for s in range(ctx.n(16, 96))]
    failures += engine.merge(ctx, engine.run_pool(ctx, machine_shard, payloads))
    engine.report_failures(ctx, MOD, failures)
    engine.replay_known(ctx, MOD)


def replay(ctx: Ctx, path: str) -> int:
    return engine.replay_cli(ctx, MOD, path)
