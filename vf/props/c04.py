"""C04 — private declarations never leak into stubs; the API JSON marks exactly those as non-public (structure profile, ground-truth inventory)."""

from __future__ import annotations

from typing import Any

from hypothesis import strategies as st

from vf import engine, gen, structgen
from vf.common import Ctx
from vf.structure import judge_c04

MOD = "c04"


@st.composite
def _case(draw: Any, args: dict) -> dict:
    pkg = draw(structgen.struct_package(gen.pkg_name(draw(st.integers(0, 99))), priv_bias=2, inherit=True))
    return {"pkg": pkg, "options": {"nc": draw(st.booleans())}}


def strategy(args: dict) -> st.SearchStrategy:
    return _case(args)


def judge(case: dict) -> dict:
    return judge_c04(case)


def run(ctx: Ctx) -> None:
    ctx.rule = (
        "the C03 structure generator with the privacy pools turned up (underscore names at package, module, class, nested "
        "class, method, attribute, enum-member level, dunder names, trailing underscores) and re-exports under public and "
        "private aliases, by star and by module alias. evaluations = private declarations checked for absence + API entries "
        "checked for their is_public flag; non-trivial = package with a private declaration inside a public owner AND a "
        "public-named declaration inside a private owner."
    )
    ctx.assumptions = [
        "private := leading underscore and not a dunder name, or nested in / defined in a private class, module or package, unless re-exported under a public name by the __init__ of a public package",
        "private enums and enums in private modules are emitted without a publicity test (open finding, tagged decl:enum)",
    ]
    failures = engine.search(ctx, MOD, shards=ctx.n(16, 96), examples=ctx.n(24, 50))
    engine.report_failures(ctx, MOD, failures)
    engine.replay_known(ctx, MOD)


def replay(ctx: Ctx, path: str) -> int:
    return engine.replay_cli(ctx, MOD, path)
