"""C08 — output is a deterministic function of package contents and options.

E4: one generated package (biased to ties: a declaration re-exported by several packages of equal depth, one short class
name in several modules, several foreign classes, type variables, inferred unions) is run several times with the same
file contents and options while exactly one of these is perturbed: PYTHONHASHSEED (fresh interpreter, console script),
the order in which the file system enumerates directory entries (os.scandir / os.listdir wrapped in-process, keyed by a
drawn permutation seed), the working directory, the spelling of -s / -o, plain repetition.
Oracle: identical set of relative paths and identical bytes of every file under OUT.
"""

from __future__ import annotations

import hashlib
import os
from typing import Any

from hypothesis import strategies as st

from vf import engine, gen, gt
from vf.common import Ctx, Discrepancy
from vf.pipeline import run_case, run_cli

MOD = "c08"


@st.composite
def _case(draw: Any, args: dict) -> dict:
    namer = gen.Namer()
    pk = gen.pkg_name(draw(st.integers(0, 99)))
    extended = args.get("tier") == "thorough" or draw(st.integers(0, 3)) == 0
    mods: list[dict] = []
    inits: dict[str, list] = {}
    subs = ["aa", "bb", "cc"][: draw(st.integers(2, 3))]
    # a shared private module whose declarations are re-exported by several sibling packages of equal depth (tie)
    shared_cls = namer.fresh("Shared")
    shared_fn = namer.fresh("shared_fn")
    mods.append(gt.module([pk, "_shared"], [gt.klass(shared_cls, [gt.attr("x", ["int"], None)]), gt.func(shared_fn, [], ret=["int"])]))
    tie = extended
    for s in subs:
        decls: list[dict] = []
        # the same short class name in several modules
        decls.append(gt.klass("Common", [gt.attr(namer.fresh("f"), ["int"], None)]))
        decls.append(gt.func(namer.fresh("use"), [gt.param("c", "pos", ["cls", f"{pk}.{s}.mod:Common"], None), gt.param("d", "pos", ["ext", "decimal", "Decimal"], None), gt.param("e", "pos", ["ext", "fractions", "Fraction"], None), gt.param("g", "pos", ["ext", "decimal", "Context"], None), gt.param("h", "pos", ["ext", "decimal", "DecimalTuple"], None), gt.param("t", "pos", ["tvar", "T2"], None), gt.param("u", "pos", ["tvar", "T1"], None)], ret=["cls", f"{pk}._shared:{shared_cls}"]))
        body = ["if c:", "    return 1", "elif d:", "    return 'a'", "elif e:", "    return None", "return 2.5, True"]
        decls.append(gt.func(namer.fresh("inferred"), [gt.param("c", "pos", None, None), gt.param("d", "pos", None, None), gt.param("e", "pos", None, None)], ret=None, body=body))
        decls.append(gt.func(namer.fresh("lit"), [gt.param("v", "pos", ["union", [["literal", ["b", "a"]], ["int"], ["none"], ["str"]]], None)], ret=["union", [["cls", f"{pk}.{s}.mod:Common"], ["int"], ["ext", "collections", "OrderedDict"]]]))
        mods.append(gt.module([pk, s, "mod"], decls))
        if tie:
            inits.setdefault(f"{pk}/{s}", []).append(["from", f"{pk}._shared", shared_cls, None])
            inits.setdefault(f"{pk}/{s}", []).append(["from", f"{pk}._shared", shared_fn, None])
        else:
            inits.setdefault(f"{pk}/{s}", [])
    # two modules whose dotted names are prefix-related, both defining (and instantiating) a class of the same short name
    # that is then looked up by name (superclass, unanalysed list attribute)
    for mname in ("shapes", "shapes_3d"):
        body = [
            # (declared before Shape: the unanalysed 'list[Shape]' is then resolved through the table of short names)
            gt.klass(namer.fresh("Holder"), [gt.attr(namer.fresh("held"), ["list", ["cls", f"{pk}.{mname}:Shape"]], "[]")]),
            gt.klass("Shape", [gt.attr(namer.fresh("sx"), ["int"], None)]),
            {"t": "raw", "lines": ["DEFAULT_SHAPE = Shape()"], "tags": []},
            gt.klass(namer.fresh("Square"), [gt.attr(namer.fresh("items"), ["list", ["cls", f"{pk}.{mname}:Shape"]], "[]")], bases=[["cls", f"{pk}.{mname}:Shape"]]),
        ]
        # two tuple returns of equal length (ordering of the inferred tuple types)
        body.append(gt.func(namer.fresh("two_tuples"), [gt.param("c", "pos", None, None)], ret=None, body=["if c:", "    return 1, 'a'", "return 2.5, True"]))
        mods.append(gt.module([pk, mname], body))
    if not tie:
        inits.setdefault(pk, []).append(["from", "._shared", shared_cls, None])
        inits.setdefault(pk, []).append(["from", "._shared", shared_fn, None])
    pkg = gt.package(pk, mods, inits)
    # what -s points at: the package, its parent directory, or a directory that holds package roots at different depths in
    # different branches (the tool analyses the nearest one)
    layout = draw(st.sampled_from(["package", "package", "parent", "multi_root"]))
    return {"pkg": pkg, "layout": layout, "options": {"nc": draw(st.booleans()), "docstyle": draw(st.sampled_from(["PLAINTEXT", "NUMPYDOC"]))}, "perm_seeds": draw(st.lists(st.integers(1, 10**6), min_size=2, max_size=2, unique=True)), "hash_seeds": draw(st.lists(st.integers(1, 4000), min_size=2, max_size=2, unique=True)), "tie": tie}


def strategy(args: dict) -> st.SearchStrategy:
    return _case(args)


def digest(r: dict) -> dict[str, str]:
    out = {}
    for rel, txt in {**r["stubs"], **{k: v for k, v in r["others"].items() if k.endswith("__api.json")}}.items():
        out[rel] = hashlib.sha256(txt.encode("utf-8", "replace")).hexdigest()[:16]
    return out


DECOYS = {
    "zeta/vendor/inner/__init__.py": "",
    "zeta/vendor/inner/util.py": "def decoy_fn(a: int) -> int:\n    return a\n",
    "aaa/x/y/other/__init__.py": "",
    "aaa/x/y/other/m.py": "class Decoy:\n    v: int\n",
    "mmm/notes.txt": "no package here\n",
}


class _PermutedScandir:
    def __init__(self, it: Any, seed: int) -> None:
        entries = list(it)
        entries.sort(key=lambda e: hashlib.sha256(f"{seed}/{e.name}".encode()).hexdigest())
        self._entries = entries
        self._it = it

        self._pos = 0

    def __iter__(self):  # noqa: ANN204
        return self

    def __next__(self):  # noqa: ANN204
        if self._pos >= len(self._entries):
            raise StopIteration
        self._pos += 1
        return self._entries[self._pos - 1]

    def __enter__(self):  # noqa: ANN204
        return self

    def __exit__(self, *a: Any) -> None:
        self.close()

    def close(self) -> None:
        if hasattr(self._it, "close"):
            self._it.close()


def run_permuted(files: dict, options: dict, src: str, seed: int) -> dict:
    """In-process run during which os.scandir / os.listdir enumerate entries in an order keyed by `seed`."""
    real_scandir, real_listdir = os.scandir, os.listdir

    def scandir(path: Any = ".") -> Any:
        return _PermutedScandir(real_scandir(path), seed)

    def listdir(path: Any = ".") -> Any:
        names = real_listdir(path)
        return sorted(names, key=lambda n: hashlib.sha256(f"{seed}/{n}".encode()).hexdigest())

    os.scandir, os.listdir = scandir, listdir  # type: ignore[assignment]
    try:
        return run_case(files, options, src=src)
    finally:
        os.scandir, os.listdir = real_scandir, real_listdir


def judge(case: dict) -> dict:
    pkg = case["pkg"]
    files = gt.render_package(pkg)
    gt.check_compiles(files)
    opts = case["options"]
    src = pkg["name"]
    layout = case.get("layout", "package")
    if layout == "parent":
        src = ""
    elif layout == "multi_root":
        src = ""
        files = {f"lib/{k}": v for k, v in files.items()}
        files.update(DECOYS)
    res: dict[str, Any] = {"discs": [], "nontrivial": [], "evals": 0, "stats": [f"layout:{layout}"], "sample": None}
    tags = ["reexp:equal_depth"] if case.get("tie") else []
    base = run_cli(files, opts, src=src, hashseed="0")
    res["evals"] += 1
    if base["status"] != "ok":
        res["discs"].append(Discrepancy.make("run_failed", pkg["name"], str(base["exc"])[:300], tags))
        return res
    ref = digest(base)
    variants: list[tuple[str, Any]] = []
    for hs in case["hash_seeds"]:
        variants.append((f"PYTHONHASHSEED={hs}", lambda hs=hs: run_cli(files, opts, src=src, hashseed=str(hs))))
    variants.append(("repetition", lambda: run_cli(files, opts, src=src, hashseed="0")))
    variants.append(("cwd=parent of SRC, relative paths", lambda: run_cli(files, opts, src=src, hashseed="0", cwd_kind="src_parent", spelling="rel")))
    variants.append(("cwd=OUT, -s/-o with trailing slash", lambda: run_cli(files, opts, src=src, hashseed="0", cwd_kind="out", spelling="abs_slash")))
    variants.append(("cwd=ancestor, paths via ..", lambda: run_cli(files, opts, src=src, hashseed="0", cwd_kind="ancestor", spelling="dotdot")))
    variants.append(("cwd=SRC, ./relative", lambda: run_cli(files, opts, src=src, hashseed="0", cwd_kind="src", spelling="rel_dot")))
    for ps in case["perm_seeds"]:
        variants.append((f"directory enumeration order #{ps} (in-process)", lambda ps=ps: run_permuted(files, opts, src, ps)))
    variants.append(("in-process, natural order", lambda: run_case(files, opts, src=src)))
    for name, fn in variants:
        r = fn()
        res["evals"] += 1
        res["stats"].append("perturbation:" + name.split(" #")[0].split("=")[0])
        if r["status"] != "ok":
            res["discs"].append(Discrepancy.make("run_failed_under_perturbation", f"{pkg['name']}: {name}", str(r["exc"])[:300], tags))
            continue
        d = digest(r)
        if sorted(d) != sorted(ref):
            res["discs"].append(Discrepancy.make("file_set_differs", f"{pkg['name']}: {name}", f"only in baseline {sorted(set(ref) - set(d))[:3]}; only in variant {sorted(set(d) - set(ref))[:3]}", tags))
        else:
            diff = [k for k in sorted(ref) if ref[k] != d[k]]
            if diff:
                a = {**base["stubs"], **base["others"]}[diff[0]].split("\n")
                b = {**r["stubs"], **r["others"]}[diff[0]].split("\n")
                line = next((f"{x!r} vs {y!r}" for x, y in zip(a, b) if x != y), "length differs")
                res["discs"].append(Discrepancy.make("file_content_differs", f"{pkg['name']}: {name}", f"{diff[:3]}: {line[:200]}", tags))
    res["nontrivial"].append(f"{pkg['name']}|tie={case.get('tie')}|{len(ref)}|{opts}")
    res["stats"].append(f"equal_depth_tie={bool(case.get('tie'))}")
    if res["sample"] is None:
        res["sample"] = {"package": pkg["name"], "files": sorted(ref)[:8], "perturbations": [v[0] for v in variants]}
    return res


def run(ctx: Ctx) -> None:
    ctx.rule = (
        "packages with the same short class name 'Common' in 2-3 sibling sub-packages, a private module whose class and "
        "function are re-exported by the root package (-s points at the package, at its parent directory, or at a directory with decoy package roots at other depths) (or, extended, by all siblings of equal depth), foreign classes, two "
        "type variables, inferred union results and literal unions; each is run 1 + 11 times: 2 other hash seeds, repetition, "
        "4 cwd/path-spelling combinations (console script), 2 directory-enumeration permutations and the natural order "
        "(in-process). evaluations = pipeline runs; non-trivial = every package (each contains name collisions, several "
        "foreign classes and inferred unions)."
    )
    ctx.assumptions = ["'the complete output' = the API JSON file and every .sdsstub file under OUT; mypy's .mypy_cache directory (written into the cwd, which one perturbation makes equal to OUT) is not output of the tool", "hash seeds and enumeration orders are sampled, not exhausted", "the enumeration order is perturbed for os.scandir and os.listdir (what pathlib.glob and mypy use) inside the harness process"]
    failures = engine.search(ctx, MOD, shards=ctx.n(16, 64), examples=ctx.n(2, 8), timeout_s=3000)
    engine.report_failures(ctx, MOD, failures)
    engine.replay_known(ctx, MOD)


def replay(ctx: Ctx, path: str) -> int:
    return engine.replay_cli(ctx, MOD, path)
