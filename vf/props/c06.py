"""C06 — parameter lists are reproduced exactly (stub + API JSON).

Domain: legal Python signatures (all five parameter kinds, any legal default placement) on module functions,
instance/static/class methods and constructors, receivers named self/cls/anything; literal and non-literal defaults.
Oracle: ground truth (the generated signature itself; default values evaluated by Python, not by the tool).
"""

from __future__ import annotations

import itertools
import math
from typing import Any

from hypothesis import strategies as st

from vf import engine, gen, gt
from vf.common import Ctx, Discrepancy, trunc
from vf.outidx import StubSet, api_index
from vf.pipeline import run_case

MOD = "c06"
ASSIGNED = {"posonly": "POSITION_ONLY", "pos": "POSITION_OR_NAME", "vararg": "POSITIONAL_VARARG", "kwonly": "NAME_ONLY", "kwarg": "NAMED_VARARG"}

NONLITERAL = [
    ["expr", "CONST_A"], ["expr", "int()"], ["expr", "[]"], ["expr", "{}"], ["expr", "()"], ["expr", "(1 if CONST_A else 2)"],
    ["expr", "--1"], ["expr", "not True"], ["expr", "math.pi"], ["expr", "[1, 2]"], ["expr", "len('ab')"], ["expr", "~1"],
]  # fmt: skip
SIMPLE_ANN = [["int"], ["str"], ["bool"], ["float"], ["opt", ["int"]], ["list", ["int"]], ["any"]]


def _defaults() -> st.SearchStrategy:
    return st.one_of(gen.literal_defaults(), gen.literal_defaults(), gen.literal_defaults(), st.sampled_from(NONLITERAL))


SHARED_PARAM_NAMES = ["a", "b", "x", "value", "data", "args", "kwargs", "key", "n", "other", "self_", "opts"]


def _share_names(draw: Any, params: list[dict]) -> list[dict]:
    """Half of the signatures take their parameter names from a small pool shared by all functions of the package
    (unique within one signature): the same name then occurs with different kinds, types and defaults elsewhere."""
    if not params or draw(st.booleans()):
        return params
    names = draw(st.permutations(SHARED_PARAM_NAMES))[: len(params)]
    for p, n in zip(params, names):
        p["name"] = n
    return params


@st.composite
def _case(draw: Any, args: dict) -> dict:
    namer = gen.Namer()
    ann = st.sampled_from(SIMPLE_ANN)
    n_funcs = draw(st.integers(6, 14))
    n_classes = draw(st.integers(2, 5))
    decls: list[dict] = []
    for _ in range(n_funcs):
        params = _share_names(draw, draw(gen.signatures(namer, ann, _defaults())))
        if draw(st.integers(0, 9)) == 0 and params and params[0]["kind"] in {"pos", "posonly"}:
            params[0]["name"] = draw(st.sampled_from(["self", "cls"]))
        decls.append(gt.func(namer.fresh("fn_"), params))
    for _ in range(n_classes):
        members: list[dict] = []
        for _ in range(draw(st.integers(1, 5))):
            kind = draw(st.sampled_from(["method", "method", "static", "classmethod"]))
            recv = None
            if kind == "method":
                recv = draw(st.sampled_from(["self", "self", "this", "me", "cls", "_"]))
            elif kind == "classmethod":
                recv = draw(st.sampled_from(["cls", "cls", "klass", "self"]))
            params = _share_names(draw, draw(gen.signatures(namer, ann, _defaults(), max_params=5)))
            params = [p for p in params if p["name"] != recv]
            members.append(gt.func(namer.fresh("meth_"), params, kind=kind, recv=recv))
        ctor = None
        if draw(st.booleans()):
            ctor = gt.func("__init__", _share_names(draw, draw(gen.signatures(namer, ann, _defaults(), max_params=5))), kind="method", recv=draw(st.sampled_from(["self", "self", "this"])))
        decls.append(gt.klass(namer.fresh("Cls"), members, ctor=ctor))
    order = draw(st.permutations(range(len(decls))))
    decls = [decls[i] for i in order]
    pkgname = gen.pkg_name(draw(st.integers(0, 99)))
    mod = gt.module([pkgname, "sigs"], decls, pre=["import math", "CONST_A = 3"])
    return {"pkg": gt.package(pkgname, [mod]), "options": {"nc": draw(st.booleans())}}


def strategy(args: dict) -> st.SearchStrategy:
    return _case(args)


# ---- deterministic enumeration of kind sequences x default masks ----------------------------------------
def enumerate_signatures(max_len: int) -> list[list[tuple[str, bool]]]:
    out: list[list[tuple[str, bool]]] = []
    for n_po in range(max_len + 1):
        for n_p in range(max_len + 1 - n_po):
            for var in (0, 1):
                for n_k in range(max_len + 1 - n_po - n_p - var):
                    for kw in (0, 1):
                        if n_po + n_p + var + n_k + kw > max_len:
                            continue
                        npos = n_po + n_p
                        for first_def in range(npos + 1):
                            for kmask in itertools.product([False, True], repeat=n_k):
                                sig = []
                                for i in range(npos):
                                    sig.append(("posonly" if i < n_po else "pos", i >= first_def))
                                if var:
                                    sig.append(("vararg", False))
                                for km in kmask:
                                    sig.append(("kwonly", km))
                                if kw:
                                    sig.append(("kwarg", False))
                                out.append(sig)
    return out


def deterministic_cases(ctx: Ctx) -> list[dict]:
    sigs = enumerate_signatures(3 if ctx.tier == "quick" else 5)
    ctx.extra["enumerated_kind_sequences"] = len(sigs)
    lits = [["int", "7"], ["str", "s"], ["none"], ["bool", True], ["float", "-1.5"], ["int", "-2"]]
    cases = []
    per_pkg = 120
    holders = ["function", "method", "static", "classmethod", "ctor"]
    items = [(s, h) for s in sigs for h in holders]
    for ci in range(0, len(items), per_pkg):
        namer = gen.Namer()
        decls: list[dict] = []
        for j, (sig, holder) in enumerate(items[ci : ci + per_pkg]):
            params = []
            for k, (kind, has_def) in enumerate(sig):
                ann = SIMPLE_ANN[(j + k) % 4] if (j + k) % 3 else None
                params.append(gt.param(namer.fresh("q"), kind, ann, lits[(j + k) % len(lits)] if has_def else None))
            if holder == "function":
                decls.append(gt.func(namer.fresh("ef_"), params))
            elif holder == "ctor":
                decls.append(gt.klass(namer.fresh("ECls"), [], ctor=gt.func("__init__", params, kind="method")))
            else:
                decls.append(gt.klass(namer.fresh("ECls"), [gt.func(namer.fresh("em_"), params, kind=holder)]))
        pkgname = gen.pkg_name(100 + ci // per_pkg)
        cases.append({"pkg": gt.package(pkgname, [gt.module([pkgname, "enum_sigs"], decls)]), "options": {"nc": (ci // per_pkg) % 2 == 1}})
    return cases


# ---- oracle -------------------------------------------------------------------------------------------
def same_value(stub_default: tuple, expected: tuple) -> bool:
    if expected[0] == "null":
        return stub_default == ("null",)
    if expected[0] == "bool":
        return stub_default == ("bool", expected[1])
    if expected[0] == "str":
        return stub_default == ("str", expected[1])
    if expected[0] == "int":
        return stub_default[0] == "int" and stub_default[1] == expected[1]
    if expected[0] == "float":
        if stub_default[0] not in {"float", "int"}:
            return False
        a, b = float(stub_default[1]), expected[1]
        if stub_default[0] == "int":
            return False
        return a == b or (math.isfinite(b) and abs(a - b) <= 1e-12 * max(1.0, abs(b)))
    return False


def judge_function(f: dict, chain: tuple[str, ...], stub_params: list, fid: str, api: dict, tags: list[str]) -> tuple[list[Discrepancy], bool]:
    out: list[Discrepancy] = []
    el = ".".join(chain)
    exp = f["params"]
    names = [p.python_name for p in stub_params]
    if names != [p["name"] for p in exp]:
        out.append(Discrepancy.make("param_list_differs", el, f"stub parameters {names} != python {[p['name'] for p in exp]}", tags))
    else:
        for sp, p in zip(stub_params, exp):
            d = p["default"]
            if d is not None and d[0] != "expr":
                ev = gen.default_value(d)
                if sp.default is None:
                    out.append(Discrepancy.make("default_missing", f"{el}.{p['name']}", f"python default {gt.render_default(d)} missing in stub", tags))
                elif not same_value(sp.default, ev):
                    out.append(Discrepancy.make("default_value_differs", f"{el}.{p['name']}", f"python {gt.render_default(d)} = {ev} but stub {sp.default}", tags))
            elif d is None:
                if sp.default is not None:
                    out.append(Discrepancy.make("default_invented", f"{el}.{p['name']}", f"no python default but stub has {sp.default}", tags))
            else:  # non-literal default: absent, or 'unknown'
                if sp.default is not None and sp.default != ("unknown",):
                    out.append(Discrepancy.make("nonliteral_default_rendered", f"{el}.{p['name']}", f"python default {d[1]} rendered as {sp.default}", tags + ["default:nonliteral"]))
    # API JSON
    fe = api.get("functions", {}).get(fid)
    if fe is None:
        out.append(Discrepancy.make("api_function_missing", el, f"no function entry {fid}", tags))
        return out, False
    exp_ids = []
    if f["kind"] in {"method", "property", "classmethod"} and f.get("recv"):
        exp_ids.append((f["recv"], "IMPLICIT", None))
    exp_ids += [(p["name"], ASSIGNED[p["kind"]], p) for p in exp]
    got_ids = fe.get("parameters", [])
    if got_ids != [f"{fid}/{n}" for n, _, _ in exp_ids]:
        out.append(Discrepancy.make("api_param_ids_differ", el, f"{got_ids} != expected {[n for n, _, _ in exp_ids]}", tags))
        return out, False
    for (n, assigned, p), pid in zip(exp_ids, got_ids):
        pe = api.get("parameters", {}).get(pid)
        if pe is None:
            out.append(Discrepancy.make("api_param_missing", f"{el}.{n}", f"id {pid} not in parameters list", tags))
            continue
        if pe.get("assigned_by") != assigned:
            out.append(Discrepancy.make("api_assigned_by", f"{el}.{n}", f"{pe.get('assigned_by')} != {assigned}", tags))
        if p is None:
            continue
        d = p["default"]
        dv, opt = pe.get("default_value"), pe.get("is_optional")
        if d is None:
            if opt or dv is not None:
                out.append(Discrepancy.make("api_default_invented", f"{el}.{n}", f"is_optional={opt} default_value={dv!r}", tags))
        elif d[0] != "expr":
            ev = gen.default_value(d)
            ok = bool(opt)
            if ev[0] == "null":
                ok = ok and dv is None
            elif ev[0] == "str":
                ok = ok and isinstance(dv, str) and (dv == ev[1] or (len(dv) >= 2 and dv[0] == dv[-1] == '"' and dv[1:-1] == ev[1]))
            elif ev[0] == "bool":
                ok = ok and dv is ev[1]
            elif ev[0] == "int":
                ok = ok and isinstance(dv, int) and not isinstance(dv, bool) and dv == ev[1]
            elif ev[0] == "float":
                ok = ok and isinstance(dv, float) and dv == ev[1]
            if not ok:
                out.append(Discrepancy.make("api_default_differs", f"{el}.{n}", f"python {gt.render_default(d)}; api is_optional={opt} default_value={dv!r}", tags))
        else:
            if dv is not None and dv != "UnknownValue":
                out.append(Discrepancy.make("api_nonliteral_default", f"{el}.{n}", f"python {d[1]}; api default_value={dv!r}", tags + ["default:nonliteral"]))
    kinds = {p["kind"] for p in exp}
    nontrivial = len(kinds) >= 3 or any(a["default"] is not None and b["default"] is None for a, b in zip(exp, exp[1:]))
    return out, nontrivial


def judge(case: dict) -> dict:
    pkg = case["pkg"]
    files = gt.render_package(pkg)
    gt.check_compiles(files)
    r = run_case(files, case.get("options"))
    discs: list[Discrepancy] = []
    res: dict[str, Any] = {"discs": discs, "nontrivial": [], "evals": 0, "stats": [], "sample": None}
    if r["status"] != "ok":
        discs.append(Discrepancy.make("run_failed", pkg["name"], f"{r['exc']['bucket']}: {r['exc']['msg']}", [], bucket=r["exc"]["bucket"]))
        return res
    ss = StubSet(r["stubs"])
    for rel, e in ss.errors.items():
        discs.append(Discrepancy.make("stub_unparsable", rel, str(e), []))
    api = api_index(r["api"])
    for m, owner, d in gt.walk_package(pkg):
        if d["t"] != "func":
            continue
        res["evals"] += 1
        modid = "/".join(m["path"])
        tags = list(d.get("tags", []))
        if d["name"] == "__init__":
            hit = ss.one(*owner, kind="class")
            chain = (*owner, "__init__")
            stub_params = hit[1].params if hit else None
        else:
            chain = (*owner, d["name"])
            hit = ss.one(*chain, kind="fun")
            stub_params = hit[1].params if hit else None
        fid = "/".join([modid, *chain])
        if hit is None or stub_params is None:
            n = len(ss.find(*(owner if d["name"] == "__init__" else chain)))
            discs.append(Discrepancy.make("decl_not_found_once", ".".join(chain), f"found {n} stub declarations", tags))
            continue
        ds, nt = judge_function(d, chain, stub_params, fid, api, tags)
        discs += ds
        res["stats"].append("holder:" + (d["kind"] if d["name"] != "__init__" else "ctor"))
        if any(p["default"] is not None and p["default"][0] == "expr" for p in d["params"]):
            res["stats"].append("has_nonliteral_default")
        if nt:
            res["nontrivial"].append(repr([(p["kind"], p["default"]) for p in d["params"]]) + d["kind"])
            res["stats"].append("nontrivial")
        if res["sample"] is None and nt:
            src = [ln for ln in files["/".join(m["path"]) + ".py"].split("\n") if f"def {d['name']}(" in ln]
            res["sample"] = {"python": src[:1], "stub_params": [f"{p.python_name}={p.default}" for p in stub_params], "nc": bool(case.get("options", {}).get("nc"))}
    return res


def run(ctx: Ctx) -> None:
    ctx.rule = (
        "(half of the signatures take their parameter names from a pool shared by all functions of the package) "
        "signatures: exhaustive kind sequences (length<=3 quick / <=5 thorough) x legal default masks x 5 holders "
        "(function, method, static, classmethod, constructor), plus Hypothesis-drawn signatures (0-8 parameters, drawn "
        "annotations, literal and non-literal defaults, odd receivers) batched ~40 functions per package; "
        "evaluations = judged functions; non-trivial = signature with >=3 parameter kinds or a default followed by a "
        "parameter without default (distinct by kind/default shape + holder)."
    )
    ctx.assumptions = ["docstring style PLAINTEXT (C14 owns docstring defaults)", "-0.0 and 0.0 are the same float value", *(["recogniser leniency: " + x for x in __import__("vf.sdsparse").sdsparse.LENIENT[:2]])]
    failures = engine.run_cases(ctx, MOD, deterministic_cases(ctx))
    failures += engine.search(ctx, MOD, shards=ctx.n(16, 64), examples=ctx.n(8, 25))
    engine.report_failures(ctx, MOD, failures)
    engine.replay_known(ctx, MOD)


def replay(ctx: Ctx, path: str) -> int:
    return engine.replay_cli(ctx, MOD, path)


_ = trunc
