"""C20 — TODO markers flag exactly the declarations that need manual attention.

Domain: declarations carrying every subset of the flagged features, in drawn order, so that any neighbour may or may
not carry features of its own. Oracle: the set of marker *classes* in the comment block directly in front of a
declaration must equal the set derived from that declaration's own generated features (statement's table).
"""

from __future__ import annotations

from typing import Any

from hypothesis import strategies as st

from vf import engine, gen, gt, ref
from vf.common import Ctx, Discrepancy
from vf.outidx import StubSet
from vf.pipeline import run_case

MOD = "c20"

MARKER_CLASSES = [
    ("tuple types", "tuple"),
    ("set types", "set"),
    ("List type has to many", "list_args"),
    ("Set type has to many", "set_args"),
    ("variadic", "variadic"),
    ("class methods", "class_method"),
    ("optional but position only", "opt_pos_only"),
    ("required but name only", "req_name_only"),
    ("multiple inheritance", "multiple_inheritance"),
    ("Some parameter have no type", "param_untyped"),
    ("Attribute has no type", "attr_untyped"),
    ("Result type information missing", "result_untyped"),
    ("Unknown value", "unknown_default"),
]


def classify(todo: str) -> str:
    for needle, cls in MARKER_CLASSES:
        if needle in todo:
            return cls
    return "other:" + todo


# ---- features from the ground truth -------------------------------------------------------------------
def type_features(t: list | None) -> set[str]:
    out: set[str] = set()
    if t is None:
        return out
    kinds = ref.kinds_in(t)
    if "tuple" in kinds:
        out.add("tuple")
    if "set" in kinds or "setn" in kinds:
        out.add("set")
    if "listn" in kinds:
        out.add("list_args")
    if "setn" in kinds:
        out.add("set_args")
    return out


# un-annotated parameter with a default: the tool takes the type the type checker infers for the default expression; an
# expression over literals has one ('not True' bool, '--1' / '~2' int), a reference to a module variable has none.
UNTYPED_EXPR_WITHOUT_TYPE = {"-CONST_X"}


def _no_type(p: dict) -> bool:
    if p["ann"] is not None:
        return False
    return p["default"] is None or (p["default"][0] == "expr" and p["default"][1] in UNTYPED_EXPR_WITHOUT_TYPE)


def func_features(f: dict, is_ctor: bool = False) -> tuple[set[str], list[str]]:
    feats: set[str] = set()
    tags: list[str] = []
    unk_sources: set[str] = set()
    for p in f["params"]:
        if p["kind"] in {"vararg", "kwarg"}:
            feats.add("variadic")
        if _no_type(p):
            feats.add("param_untyped")
        feats |= type_features(p["ann"])
        if p["kind"] == "posonly" and p["default"] is not None:
            feats.add("opt_pos_only")
            if p["default"] == ["none"]:
                tags.append("param:posonly_none_default")
        if p["kind"] == "kwonly" and p["default"] is None:
            feats.add("req_name_only")
        if p["default"] is not None and p["default"][0] == "expr":
            feats.add("unknown_default")
            unk_sources.add("untyped" if _no_type(p) else "typed")
    if unk_sources == {"untyped"}:
        # the only unparsable defaults sit on un-annotated parameters: the tool drops such a default and its marker (open finding)
        tags.append("param:untyped_unknown_default")
    if not is_ctor:
        if f["kind"] == "classmethod":
            feats.add("class_method")
        if f["ret"] is None:
            feats.add("result_untyped")
        elif f["ret"][0] == "tuple":
            for x in f["ret"][1]:  # a top-level tuple becomes several results; element types keep their features
                feats |= type_features(x)
        else:
            feats |= type_features(f["ret"])
    return feats, tags


UNKNOWN_DEFAULTS = [["expr", "not True"], ["expr", "--1"], ["expr", "-CONST_X"], ["expr", "~2"]]


def _types(depth1: bool = True) -> st.SearchStrategy:
    plain = st.sampled_from([["int"], ["str"], ["bool"], ["float"], ["list", ["int"]], ["dict", ["str"], ["int"]], ["opt", ["str"]], ["union", [["int"], ["str"]]]])
    flagged = st.sampled_from(
        [
            ["tuple", [["int"], ["str"]]], ["set", ["int"]], ["listn", [["int"], ["str"]]], ["setn", [["int"], ["str"]]],
            ["list", ["tuple", [["int"]]]], ["dict", ["str"], ["set", ["float"]]], ["opt", ["set", ["str"]]], ["list", ["set", ["tuple", [["int"], ["int"]]]]],
            ["callable", [["tuple", [["int"], ["int"]]]], ["set", ["int"]]], ["union", [["tuple", [["str"]]], ["int"]]], ["listn", [["set", ["int"]], ["str"], ["int"]]],
        ],
    )  # fmt: skip
    return st.one_of(plain, plain, flagged)


@st.composite
def _function(draw: Any, namer: gen.Namer, kind: str = "function", is_ctor: bool = False) -> dict:
    params = []
    n_posonly = draw(st.integers(0, 2)) if draw(st.booleans()) else 0
    n_pos = draw(st.integers(0, 2))
    total = n_posonly + n_pos
    first_default = draw(st.integers(0, total)) if total and draw(st.booleans()) else total
    for i in range(total):
        k = "posonly" if i < n_posonly else "pos"
        untyped = draw(st.integers(0, 4)) == 0
        d = None
        if i >= first_default:
            d = draw(st.one_of(gen.literal_defaults(), st.sampled_from(UNKNOWN_DEFAULTS))) if not untyped else None
            if untyped and draw(st.booleans()):
                # un-annotated with a default the tool cannot evaluate: no type from either source, and (position-only) two
                # flagged features on one parameter (seeded change C20_r5)
                d = draw(st.sampled_from(UNKNOWN_DEFAULTS))
            elif untyped:
                # an un-annotated parameter after a default must have a default too: make it annotated instead
                untyped = False
                d = draw(gen.literal_defaults())
        params.append(gt.param(namer.fresh("a"), k, None if untyped else draw(_types()), d))
    if draw(st.integers(0, 3)) == 0:
        params.append(gt.param(namer.fresh("va"), "vararg", draw(_types()) if draw(st.booleans()) else None))
    for _ in range(draw(st.integers(0, 2)) if draw(st.booleans()) else 0):
        has_def = draw(st.booleans())
        if draw(st.integers(0, 3)) == 0:
            # un-annotated keyword-only parameter: required (two flagged features on one parameter) or with an unknown default
            params.append(gt.param(namer.fresh("k"), "kwonly", None, draw(st.sampled_from(UNKNOWN_DEFAULTS)) if has_def else None))
            continue
        params.append(gt.param(namer.fresh("k"), "kwonly", draw(_types()), draw(gen.literal_defaults()) if has_def else None))
    if draw(st.integers(0, 4)) == 0:
        params.append(gt.param(namer.fresh("kw"), "kwarg", draw(_types()) if draw(st.booleans()) else None))
    ret = None
    if not is_ctor:
        ret = draw(st.one_of(st.none(), st.just(["none"]), _types()))
    name = "__init__" if is_ctor else namer.fresh("fn_" if kind == "function" else "me_")
    return gt.func(name, params, ret=ret, kind="method" if is_ctor else kind)


@st.composite
def _case(draw: Any, args: dict) -> dict:
    namer = gen.Namer()
    pkgname = gen.pkg_name(draw(st.integers(0, 99)))
    decls: list[dict] = []
    bases_pool: list[str] = []
    for _ in range(3):
        nm = namer.fresh("Base")
        bases_pool.append(f"{pkgname}.todomod:{nm}")
        decls.append(gt.klass(nm))
    var: list[dict] = []
    for _ in range(draw(st.integers(6, 12))):
        var.append(draw(_function(namer)))
    for _ in range(draw(st.integers(3, 6))):
        members: list[dict] = []
        for _ in range(draw(st.integers(0, 4))):
            untyped = draw(st.integers(0, 3)) == 0
            if untyped:
                members.append(gt.attr(namer.fresh("at_"), None, "untyped_helper()", tags=["attr_untyped"]))
            else:
                t = draw(_types())
                if t[0] == "list" and t[1][0] not in {"int", "str"}:
                    # class attributes 'list[<non-name>]' are rendered from the unanalysed annotation (open finding
                    # KF-C05-attr-list-unanalysed): outside this check's domain
                    t = ["opt", t]
                if "callable" in ref.kinds_in(t) and t[0] == "callable":
                    t = ["list", ["int"]]  # callable-typed attributes lose their type (open finding KF-C05-attr-callable)
                members.append(gt.attr(namer.fresh("at_"), t, None))
        for _ in range(draw(st.integers(0, 4))):
            kind = draw(st.sampled_from(["method", "method", "static", "classmethod"]))
            members.append(draw(_function(namer, kind)))
        for _ in range(draw(st.integers(0, 2))):
            members.append(gt.func(namer.fresh("prop_"), [], ret=draw(_types()), kind="property"))
        ctor = draw(_function(namer, is_ctor=True)) if draw(st.booleans()) else None
        if ctor is not None:
            ias = []
            for p in ctor["params"]:
                plain = p["ann"] is None or (not type_features(p["ann"]) and "callable" not in ref.kinds_in(p["ann"]))
                if plain and p["kind"] in {"pos", "posonly", "kwonly"} and draw(st.booleans()):
                    ias.append({"name": namer.fresh("ia_"), "ann": None, "value": p["name"], "from": p["name"]})
            ctor["init_attrs"] = ias
        nb = draw(st.sampled_from([0, 0, 1, 2, 3]))
        bases = [["cls", b] for b in bases_pool[:nb]]
        # an abstract class (direct subclass of abc.ABC): its stub has neither a parameter list nor a superclass list, so
        # neither the constructor's constructs nor multiple inheritance belong to the class declaration
        abstract = draw(st.integers(0, 4)) == 0
        if abstract:
            bases = [*bases[:1], ["ext", "abc", "ABC"]]
        # generic classes: the bound / the value constraints of a type parameter are written in the class header, so
        # a flagged construct there belongs to the class declaration
        tparams = []
        tp_types = _types().filter(lambda t: not (ref.kinds_in(t) & {"listn", "setn"}))  # the type checker rejects list[int, str] inside TypeVar(...)
        for _ in range(draw(st.sampled_from([0, 0, 0, 1, 1, 2]))):
            # shown in the header: the value constraints of an invariant type variable, the bound of a co-/contravariant
            # one (the bound of an invariant type variable is not written at all: not generated, the statement is silent)
            mode = draw(st.sampled_from(["free", "bound", "bound", "values"]))
            variance = draw(st.sampled_from(["out", "in"])) if mode == "bound" else ""
            tparams.append({"name": namer.fresh("TV"), "variance": variance, "bound": draw(tp_types) if mode == "bound" else None, "values": [draw(tp_types), draw(tp_types)] if mode == "values" else []})
        # a method that uses the type variable (only an unflagged one: whether a method repeats the bound of a class
        # type parameter in its own header is not C20's business)
        tp0_plain = bool(tparams) and not type_features(tparams[0]["bound"]) and not any(type_features(v) for v in tparams[0]["values"])
        if tp0_plain and draw(st.booleans()):
            members.append(gt.func(namer.fresh("me_"), [gt.param(namer.fresh("a"), "pos", ["tvar", tparams[0]["name"]], None)], ret=["tvar", tparams[0]["name"]], kind="method"))
        mperm = draw(st.permutations(range(len(members))))
        var.append(gt.klass(namer.fresh("Cls"), [members[i] for i in mperm], bases=bases, ctor=ctor, tparams=tparams, abstract=abstract))
    order = draw(st.permutations(range(len(var))))
    decls += [var[i] for i in order]
    mod = gt.module([pkgname, "todomod"], decls, pre=["CONST_X = 3", "", "", "def untyped_helper(): ..."])
    return {"pkg": gt.package(pkgname, [mod]), "options": {"nc": draw(st.booleans())}}


def strategy(args: dict) -> st.SearchStrategy:
    return _case(args)


def judge(case: dict) -> dict:
    pkg = case["pkg"]
    files = gt.render_package(pkg)
    gt.check_compiles(files)
    r = run_case(files, case.get("options"))
    discs: list[Discrepancy] = []
    res: dict[str, Any] = {"discs": discs, "nontrivial": [], "evals": 0, "stats": [], "sample": None}
    if r["status"] != "ok":
        discs.append(Discrepancy.make("run_failed", pkg["name"], f"{r['exc']['bucket']}: {r['exc']['msg']}", [], bucket=r["exc"]["bucket"]))
        return res
    ss = StubSet(r["stubs"])
    for rel, e in ss.errors.items():
        discs.append(Discrepancy.make("stub_unparsable", rel, str(e), []))

    judged: list[tuple[str, frozenset]] = []

    def check(chain: tuple[str, ...], kind: str, expected: set[str], tags: list[str]) -> None:
        res["evals"] += 1
        el = ".".join(chain)
        hit = ss.one(*chain, kind=kind)
        if hit is None:
            discs.append(Discrepancy.make("decl_not_found_once", el, f"{len(ss.find(*chain))} declarations", tags))
            return
        got = {classify(t) for t in hit[1].prefix.todos}
        judged.append((el, frozenset(expected)))
        for f in expected:
            res["stats"].append("feature:" + f)
        if not expected:
            res["stats"].append("feature:(none)")
        missing, extra = expected - got, got - expected
        if missing:
            for m in sorted(missing):
                discs.append(Discrepancy.make("marker_missing", el, f"expected marker class {m}; block has {sorted(got)}", tags + [f"marker:{m}"] + [f"{t}+marker:{m}" for t in tags]))
        if extra:
            for m in sorted(extra):
                discs.append(Discrepancy.make("marker_unexpected", el, f"unexpected marker class {m}; expected {sorted(expected)}", tags + [f"marker:{m}"]))

    for _m, owner, d in gt.walk_package(pkg):
        if d["t"] == "func":
            if d["name"] == "__init__":
                continue
            if d["kind"] == "property":
                check((*owner, d["name"]), "attr", type_features(d["ret"]) if d["ret"][0] != "tuple" else set().union(*[type_features(x) for x in d["ret"][1]]), list(d["tags"]))
                continue
            feats, tags = func_features(d)
            check((*owner, d["name"]), "fun", feats, tags + list(d["tags"]))
        elif d["t"] == "class":
            feats: set[str] = set()
            tags: list[str] = []
            if d.get("ctor") and not d.get("abstract"):
                feats, tags = func_features(d["ctor"], is_ctor=True)
            if len(d["bases"]) >= 2 and not d.get("abstract"):
                feats.add("multiple_inheritance")
            if d.get("abstract"):
                res["stats"].append("abstract_class" + ("_with_constructor" if d.get("ctor") else ""))
            for tp in d.get("tparams", []):
                feats |= type_features(tp["bound"])
                for v in tp["values"]:
                    feats |= type_features(v)
                res["stats"].append("generic_class_type_parameter:" + ("bound" if tp["bound"] else "values" if tp["values"] else "free"))
            check((*owner, d["name"]), "class", feats, tags)
            if d.get("ctor"):
                untyped_params = {p["name"] for p in d["ctor"]["params"] if p["ann"] is None}  # the attribute takes the parameter's annotation only, never a type inferred from its default
                for a in d["ctor"].get("init_attrs", []):
                    check((*owner, d["name"], a["name"]), "attr", {"attr_untyped"} if a["from"] in untyped_params else set(), [])
        elif d["t"] == "attr":
            feats = {"attr_untyped"} if d["ann"] is None else type_features(d["ann"])
            check((*owner, d["name"]), "attr", feats, list(d["tags"]))
    # non-triviality: >=2 features next to a neighbour (in judgement order = source order) with a different set
    for i, (el, fs) in enumerate(judged):
        if len(fs) >= 2:
            neigh = [judged[j][1] for j in (i - 1, i + 1) if 0 <= j < len(judged)]
            if any(n != fs for n in neigh):
                res["nontrivial"].append(f"{sorted(fs)}|{sorted(neigh[0]) if neigh else ''}")
    if judged:
        multi = [x for x in judged if len(x[1]) >= 2]
        if multi:
            el, fs = multi[0]
            hit = ss.by_chain.get(tuple(el.split(".")))
            res["sample"] = {"declaration": el, "expected_marker_classes": sorted(fs), "stub_todos": hit[0][1].prefix.todos if hit else None}
    return res


def run(ctx: Ctx) -> None:
    ctx.rule = (
        "packages of 6-12 functions and 3-6 classes (attributes, methods, properties, constructors with instance "
        "attributes, 0-3 public bases) whose parameters/results/attributes draw flagged and unflagged constructs "
        "independently, 0-2 class type parameters with value constraints (invariant) or bounds (co-/contravariant) from the same type pool, declaration order permuted; evaluations = judged declarations; non-trivial = a declaration "
        "with >=2 marker classes whose neighbour has a different set (distinct by the two sets)."
    )
    ctx.assumptions = [
        "markers are matched by feature class (13 classes), not by exact wording",
        "un-typed properties and silently dropped call/name/container defaults are outside the domain (the statement is ambiguous there)",
        "docstring style PLAINTEXT",
    ]
    failures = engine.search(ctx, MOD, shards=ctx.n(16, 96), examples=ctx.n(10, 30))
    engine.report_failures(ctx, MOD, failures)
    engine.replay_known(ctx, MOD)


def replay(ctx: Ctx, path: str) -> int:
    return engine.replay_cli(ctx, MOD, path)
