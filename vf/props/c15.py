"""C15 — the test-run flag alone controls whether test and docs directories are analysed.

Domain: package trees with directories named test / tests / docs at every depth (also nested in each other) and
look-alikes (testing, mytests, docs_old, Test, test_x.py, tests.py, docs.py), mixed with ordinary modules; run with the
flag off and on. Oracle: module ids of the API JSON == expected set from the tree (off: files under an excluded directory
removed; on: all files), no stub path with an excluded directory segment when off, byte-identical stubs for the
modules outside excluded directories, documented rejection when nothing remains.
"""

from __future__ import annotations

from typing import Any

from hypothesis import strategies as st

from vf import engine, gen
from vf.common import Ctx, Discrepancy
from vf.pipeline import run_case

MOD = "c15"
EXCLUDED = {"test", "tests", "docs"}
DIR_POOL = ["test", "tests", "docs", "testing", "mytests", "docs_old", "Test", "sub", "core", "tests_extra", "doc"]
FILE_POOL = ["mod", "test_x", "tests", "conftest", "docs", "test", "helpers"]


@st.composite
def _case(draw: Any, args: dict) -> dict:
    pk = gen.pkg_name(draw(st.integers(0, 99)))
    dirs: list[list[str]] = [[pk]]
    for _ in range(draw(st.integers(1, 5))):
        parent = draw(st.sampled_from(dirs))
        if len(parent) >= 4:
            continue
        name = draw(st.sampled_from(DIR_POOL))
        d = [*parent, name]
        if d not in dirs:
            dirs.append(d)
    files: dict[str, str] = {}
    n = 0
    collide = args.get("tier") == "thorough" and draw(st.booleans())
    init_decls: dict[str, str] = {}
    for d in dirs:
        files["/".join(d) + "/__init__.py"] = ""
        if d != [pk] and draw(st.integers(0, 2)) == 0:
            # a package whose __init__ declares something itself (importable as 'from pkg.tests import fixture_3')
            n += 1
            init_decls["/".join(d)] = f"fixture_{n}"
            files["/".join(d) + "/__init__.py"] = f'"""Package {n}."""\n\n\ndef fixture_{n}(a: int = {n}) -> int:\n    return a\n\n\nclass FixtureBox{n}:\n    y{n}: int = {n}\n'
        k = draw(st.integers(0, 2))
        sibling_dirs = {x[-1] for x in dirs if x[:-1] == d}
        for fname in draw(st.lists(st.sampled_from([f for f in FILE_POOL if f not in sibling_dirs]), min_size=k, max_size=k, unique=True)):
            n += 1
            fn = "shared_name" if collide and draw(st.booleans()) else f"fn_{n}"
            files["/".join(d) + f"/{fname}.py"] = f'"""Module {n}."""\n\n\ndef {fn}(a: int = {n}) -> int:\n    return a\n\n\nclass Cls{n}:\n    x{n}: int = {n}\n'
    # modules outside excluded directories may import from any package of the tree (this puts it into mypy's build graph)
    for rel in sorted(files):
        if rel.endswith("__init__.py") or not init_decls:
            continue
        if not in_excluded(rel) and draw(st.booleans()):
            target = draw(st.sampled_from(sorted(init_decls)))
            head, _, rest = files[rel].partition("\n")
            files[rel] = head + "\n" + f"from {target.replace('/', '.')} import {init_decls[target]} as _imported\n" + rest
    return {"pkgname": pk, "files": files, "options": {"nc": draw(st.booleans()), "docstyle": draw(st.sampled_from(["PLAINTEXT", "PLAINTEXT", "NUMPYDOC"]))}, "src_root": draw(st.sampled_from(["s", "s", "s", "docs", "tests"])) if (args.get("tier") == "thorough" or draw(st.integers(0, 9)) == 0) else "s"}


def strategy(args: dict) -> st.SearchStrategy:
    return _case(args)


def in_excluded(rel: str) -> bool:
    return any(seg in EXCLUDED for seg in rel.split("/")[:-1])


def judge(case: dict) -> dict:
    files = case["files"]
    res: dict[str, Any] = {"discs": [], "nontrivial": [], "evals": 0, "stats": [], "sample": None}
    discs = res["discs"]
    tags = ["anc:excluded_name"] if case.get("src_root") in EXCLUDED else []
    runs = {}
    for flag in (False, True):
        r = run_case(files, {**case["options"], "testrun": flag}, src=case["pkgname"], src_root_name=case.get("src_root", "s"))
        res["evals"] += 1
        runs[flag] = r
        py = [f for f in files if not f.endswith("__init__.py")]
        remaining = [f for f in py if flag or not in_excluded(f)]
        if r["status"] != "ok":
            exc = r["exc"]
            if exc["type"] == "ValueError" and exc["msg"] == "No files found to analyse.":
                if remaining:
                    discs.append(Discrepancy.make("rejected_although_files_remain", f"testrun={flag}", f"files to analyse: {remaining[:4]}", tags))
                else:
                    res["stats"].append("clean_rejection")
                continue
            discs.append(Discrepancy.make("run_failed", f"testrun={flag}", f"{exc['bucket']}: {exc['msg'][:200]}", tags, bucket=exc["bucket"]))
            continue
        if not remaining:
            discs.append(Discrepancy.make("not_rejected", f"testrun={flag}", "no file to analyse, yet the run completed", tags))
            continue
        api = r["api"] or {}
        got_mods = {m["id"] for m in api.get("modules", []) if m.get("name") != "__init__"}
        got_pkgs = {m["id"] for m in api.get("modules", []) if m.get("name") == "__init__"}
        exp_mods = {f[:-3] for f in remaining}
        if got_mods != exp_mods:
            discs.append(Discrepancy.make("module_set_differs", f"testrun={flag}", f"missing {sorted(exp_mods - got_mods)[:4]}; unexpected {sorted(got_mods - exp_mods)[:4]}", tags))
        if not flag:
            for mid in sorted(got_mods):
                if any(seg in EXCLUDED for seg in mid.split("/")[:-1]):
                    discs.append(Discrepancy.make("excluded_module_analysed", mid, "module in a test/tests/docs directory contributes although the flag is off", tags))
            for pid in sorted(got_pkgs):
                if any(seg in EXCLUDED for seg in pid.split("/")):
                    discs.append(Discrepancy.make("excluded_package_analysed", pid, "package directory named test/tests/docs contributes although the flag is off", tags))
            for entry_list in ("classes", "functions"):
                for e in api.get(entry_list, []):
                    parts = e["id"].split("/")
                    all_mods = exp_mods | {f[:-3] for f in py} | {f[: -len("/__init__.py")] for f in files if f.endswith("/__init__.py")}
                    mod_id = next((m for m in sorted(all_mods, key=len, reverse=True) if e["id"].startswith(m + "/")), None)
                    is_pkg = mod_id is not None and f"{mod_id}/__init__.py" in files
                    if mod_id and any(seg in EXCLUDED for seg in (mod_id.split("/") if is_pkg else mod_id.split("/")[:-1])):
                        discs.append(Discrepancy.make("excluded_declaration_in_api", e["id"], f"{entry_list} entry from an excluded directory (flag off)", tags))
                    _ = parts
            for rel in r["stubs"]:
                if any(seg in EXCLUDED for seg in rel.split("/")[:-2]):
                    discs.append(Discrepancy.make("excluded_stub_written", rel, "stub for a module in a test/tests/docs directory (flag off)", tags))
        for f in remaining:
            stub = f"{f[:-3]}/{f[:-3].split('/')[-1]}.sdsstub"
            if stub not in r["stubs"]:
                discs.append(Discrepancy.make("stub_missing", stub, f"testrun={flag}: module {f} is analysed but has no stub", tags))
    if runs[False]["status"] == "ok" and runs[True]["status"] == "ok":
        for rel, text in runs[False]["stubs"].items():
            other = runs[True]["stubs"].get(rel)
            if other is None:
                discs.append(Discrepancy.make("flag_changes_unrelated_stub", rel, "present without the flag, absent with it", tags))
            elif other != text:
                discs.append(Discrepancy.make("flag_changes_unrelated_stub", rel, "stub of a module outside test/tests/docs directories differs between flag off and on", tags))
    segs = {seg for f in files for seg in f.split("/")[:-1]}
    names = segs | {f.split("/")[-1][:-3] for f in files}
    if segs & EXCLUDED and names & {"testing", "mytests", "docs_old", "Test", "test_x", "tests_extra", "doc"}:
        res["nontrivial"].append("|".join(sorted(files)))
    res["stats"] += [f"excluded_dirs={len(segs & EXCLUDED)}", f"nested_excluded={any(sum(1 for s in f.split('/')[:-1] if s in EXCLUDED) >= 2 for f in files)}"]
    if res["sample"] is None and segs & EXCLUDED:
        res["sample"] = {"tree": sorted(files), "modules_flag_off": sorted(m["id"] for m in (runs[False].get("api") or {}).get("modules", [])) if runs[False]["status"] == "ok" else runs[False]["exc"]["msg"]}
    return res


def candidates(case: dict) -> list[dict]:
    out = []
    fs = case["files"]
    for k in sorted(fs):
        if k.endswith("__init__.py"):
            d = k[: -len("__init__.py")]
            rest = {f: v for f, v in fs.items() if not f.startswith(d)}
            if rest and d.count("/") > 1:
                out.append({**case, "files": rest})
        else:
            rest = {f: v for f, v in fs.items() if f != k}
            out.append({**case, "files": rest})
    return out


def run(ctx: Ctx) -> None:
    ctx.rule = (
        "package trees of 2-6 directories (names drawn from test, tests, docs, testing, mytests, docs_old, Test, tests_extra, "
        "doc, sub, core; nested to depth 4) each with 0-2 modules (mod, test_x, tests, conftest, docs, test, helpers), run "
        "with the flag off and on. evaluations = pipeline runs; non-trivial = tree that contains an excluded directory name "
        "AND a look-alike name (distinct by file set)."
    )
    ctx.assumptions = ["a file is 'located in' an excluded directory when one of the directory segments between the package root and the file is named test, tests or docs"]
    failures = engine.search(ctx, MOD, shards=ctx.n(16, 96), examples=ctx.n(12, 30))
    engine.report_failures(ctx, MOD, failures)
    engine.replay_known(ctx, MOD)


def replay(ctx: Ctx, path: str) -> int:
    return engine.replay_cli(ctx, MOD, path)
