"""C09 — naming conversion renames consistently and keeps Python names recoverable.

(a) E2: `_convert_name_to_convention` against a reference conversion, exhaustively over the identifiers of a reduced
    alphabet {a,b,A,B,0,1,_} up to length 6 (7 in thorough) and Hypothesis identifiers over the full alphabet.
(b) E4: the same generated package is run with -nc off and on; per declaration the rendered identifier must be the
    reference conversion of the Python name, the Python-name / Python-module annotations must be present exactly when
    the name / path differs, and after mapping every identifier back the two stub sets must be equal as trees.
"""

from __future__ import annotations

import itertools
import multiprocessing as mp
from typing import Any

import hypothesis
from hypothesis import HealthCheck, Phase, given, settings
from hypothesis import strategies as st

from vf import engine, gt, names, sdsparse
from vf.common import Ctx, Discrepancy, derive_seed
from vf.outidx import StubSet
from vf.pipeline import run_case
from vf.props import c02

MOD = "c09"
ALPHA = "abAB01_"


# ---- (a) pure function ------------------------------------------------------------------------------------------
def is_identifier(s: str) -> bool:
    return bool(s) and s.isidentifier() and s.isascii()


def name_tags(name: str) -> list[str]:
    tags = []
    if len(name) >= 2 and set(name) == {"_"}:
        tags.append("name:all_underscores")
    core = name.strip("_")
    if core[:1].isdigit():
        tags.append("name:digit_after_leading_underscores")
    return tags


def check_name(name: str) -> list[Discrepancy]:
    from safeds_stubgen.stubs_generator._helper import NamingConvention, _convert_name_to_convention

    out: list[Discrepancy] = []
    tags = name_tags(name)
    for is_class in (False, True):
        try:
            py = _convert_name_to_convention(name, NamingConvention.PYTHON, is_class)
            sd = _convert_name_to_convention(name, NamingConvention.SAFE_DS, is_class)
        except Exception as e:  # noqa: BLE001
            out.append(Discrepancy.make("conversion_raises", f"{name!r} is_class={is_class}", f"{type(e).__name__}: {e}", tags))
            continue
        el = f"{name!r} is_class={is_class}"
        if py != name:
            out.append(Discrepancy.make("python_convention_not_identity", el, f"-> {py!r}", tags))
        want = names.ref_convert(name, is_class)
        if sd != want:
            out.append(Discrepancy.make("conversion_differs_from_reference", el, f"-> {sd!r}, reference {want!r}", tags))
        if not is_identifier(sd):
            out.append(Discrepancy.make("converted_name_not_an_identifier", el, f"-> {sd!r}", tags))
        else:
            try:
                again = _convert_name_to_convention(sd, NamingConvention.SAFE_DS, is_class)
            except Exception as e:  # noqa: BLE001
                again = f"<{type(e).__name__}>"
            if again != sd:
                out.append(Discrepancy.make("conversion_not_idempotent", el, f"-> {sd!r} -> {again!r}", tags))
        if sd.replace("_", "").lower() != name.replace("_", "").lower() and name != "_":
            out.append(Discrepancy.make("conversion_changes_letters", el, f"-> {sd!r}", tags))
    return out


def _enum_chunk(payload: tuple[int, int, int]) -> dict:
    length, lo, hi = payload
    res = {"n": 0, "nontrivial": 0, "discs": []}
    for idx in range(lo, hi):
        chars = []
        x = idx
        for _ in range(length):
            chars.append(ALPHA[x % 7])
            x //= 7
        name = "".join(chars)
        if not name.isidentifier():
            continue
        res["n"] += 1
        core = name.strip("_")
        if "_" in core or name != core:
            res["nontrivial"] += 1
        for d in check_name(name):
            if len(res["discs"]) < 200:
                res["discs"].append(d)
    return res


# ---- (b) packages ------------------------------------------------------------------------------------------------
def strategy(args: dict) -> st.SearchStrategy:
    return c02.strategy(args)


TYPE_VARIABLES: set[str] = set()  # names of the type variables of the package under judgement (set by judge)


def _collect_tvars(x: Any, out: set[str]) -> None:
    if isinstance(x, list):
        if len(x) >= 2 and x[0] == "tvar" and isinstance(x[1], str):
            out.add(x[1])
        for y in x:
            _collect_tvars(y, out)
    elif isinstance(x, dict):
        if "tparams" in x:
            for tp in x["tparams"]:
                out.add(tp["name"])
        for y in x.values():
            _collect_tvars(y, out)


def norm_type(t: Any, convert_synthetic: bool) -> Any:
    if t is None:
        return None
    k = t[0]
    if k == "nullable":
        return ("nullable", norm_type(t[1], convert_synthetic))
    if k == "named":
        # a reference to a type variable is renamed like its declaration (type parameters are lowerCamelCase under -nc)
        nm = names.ref_convert(t[1]) if convert_synthetic and t[1] in TYPE_VARIABLES else t[1]
        return ("named", nm, tuple(norm_type(a, convert_synthetic) for a in t[2]))
    if k == "union":
        return ("union", tuple(norm_type(a, convert_synthetic) for a in t[1]))
    if k == "callable":
        f = (lambda n: names.ref_convert(n)) if convert_synthetic else (lambda n: n)
        return ("callable", tuple((f(n), norm_type(a, convert_synthetic)) for n, a in t[1]), tuple((f(n), norm_type(a, convert_synthetic)) for n, a in t[2]))
    return t


def norm_doc(doc: str | None, convert_synthetic: bool) -> list[str]:
    out = []
    for ln in sdsparse.doc_lines(doc):
        for tagname in ("@param ", "@result "):
            if ln.startswith(tagname) and convert_synthetic:
                rest = ln[len(tagname) :]
                nm, _, tail = rest.partition(" ")
                ln = f"{tagname}{names.ref_convert(nm)} {tail}".rstrip()
        out.append(ln)
    return out


def norm_decl(d: sdsparse.Decl, off_side: bool) -> Any:
    f = (lambda n: names.ref_convert(n)) if off_side else (lambda n: n)
    return (
        d.kind,
        d.python_name,
        d.static,
        tuple((v, f(n), norm_type(b, off_side)) for v, n, b in d.type_params),
        None if d.params is None else tuple((p.python_name, norm_type(p.type, off_side), p.default) for p in d.params),
        tuple((f(n), norm_type(t, off_side)) for n, t in d.results),
        tuple(norm_type(s, off_side) for s in d.supers),
        norm_type(d.type, off_side),
        tuple(sorted(d.prefix.todos)),
        tuple(norm_doc(d.prefix.doc, off_side)),
        tuple(sorted(a for a in d.prefix.annotations if a[0] != "PythonName")),
        tuple(norm_decl(m, off_side) for m in d.members),
    )


def first_diff(a: Any, b: Any, path: str = "") -> str:
    if type(a) != type(b):  # noqa: E721
        return f"{path}: {a!r} vs {b!r}"
    if isinstance(a, tuple):
        if len(a) != len(b):
            return f"{path}: lengths {len(a)} vs {len(b)}: {str(a)[:120]} vs {str(b)[:120]}"
        for i, (x, y) in enumerate(zip(a, b)):
            if x != y:
                return first_diff(x, y, f"{path}/{i}")
        return ""
    return "" if a == b else f"{path}: {a!r} vs {b!r}"


def check_rendered(d: sdsparse.Decl, nc: bool, el: str, discs: list, is_class: bool) -> None:
    if d.kind == "enum":
        # the statement lists enum members, not enum names: the enum's own name is not judged, its members are
        for m in d.members:
            check_rendered(m, nc, f"{el}.{m.python_name}", discs, False)
        return
    py = d.python_name
    want = names.rendered(py, nc, is_class)
    tags = name_tags(py)
    if d.name != want:
        discs.append(Discrepancy.make("rendered_name_differs", el, f"{d.kind} {py!r} is rendered {d.name!r}, reference conversion {want!r} (nc={nc})", tags))
    has_anno = d.prefix.python_name is not None
    if has_anno != (want != py) and d.name == want:
        discs.append(Discrepancy.make("python_name_annotation_wrong", el, f"{d.kind} {py!r} rendered {d.name!r}: annotation present={has_anno}", tags))
    for p in d.params or []:
        pw = names.rendered(p.python_name, nc)
        ptags = name_tags(p.python_name)
        if p.name != pw:
            discs.append(Discrepancy.make("rendered_name_differs", f"{el}({p.python_name})", f"parameter rendered {p.name!r}, reference {pw!r}", ptags))
        elif any(a[0] == "PythonName" for a in p.annotations) != (pw != p.python_name):
            discs.append(Discrepancy.make("python_name_annotation_wrong", f"{el}({p.python_name})", f"parameter rendered {p.name!r}", ptags))
    for m in d.members:
        check_rendered(m, nc, f"{el}.{m.python_name}", discs, m.kind == "class")


def judge(case: dict) -> dict:
    if "name" in case:  # replay of a finding about the pure conversion function
        return {"discs": check_name(case["name"]), "nontrivial": [], "evals": 1, "stats": [], "sample": None}
    pkg = case["pkg"]
    TYPE_VARIABLES.clear()
    _collect_tvars(pkg, TYPE_VARIABLES)
    files = gt.render_package(pkg)
    gt.check_compiles(files)
    opts = {k: v for k, v in case["options"].items() if k != "nc"}
    discs: list[Discrepancy] = []
    res: dict[str, Any] = {"discs": discs, "nontrivial": [], "evals": 0, "stats": [], "sample": None}
    runs = {}
    for nc in (False, True):
        r = run_case(files, {**opts, "nc": nc}, src=pkg["name"])
        if r["status"] != "ok":
            discs.append(Discrepancy.make("run_failed", pkg["name"], f"nc={nc}: {r['exc']['bucket']}: {r['exc']['msg']}", [], bucket=r["exc"]["bucket"]))
            return res
        runs[nc] = StubSet(r["stubs"])
        for rel, e in runs[nc].errors.items():
            discs.append(Discrepancy.make("stub_unparsable", f"nc={nc}:{rel}", str(e), []))
    off, on = runs[False], runs[True]
    if sorted(off.texts) != sorted(on.texts):
        discs.append(Discrepancy.make("file_sets_differ", pkg["name"], f"only without -nc: {sorted(set(off.texts) - set(on.texts))[:4]}; only with -nc: {sorted(set(on.texts) - set(off.texts))[:4]}", []))
    n_conv = 0
    for rel in sorted(set(off.files) & set(on.files)):
        so, sn = off.files[rel], on.files[rel]
        res["evals"] += 1
        # off side: verbatim, no annotations
        if so.annotations:
            discs.append(Discrepancy.make("annotation_without_conversion", rel, f"file annotations {so.annotations} although naming conversion is off", []))
        for d in so.members:
            check_rendered(d, False, f"{rel}:{d.python_name}", discs, d.kind == "class")
        for d in sn.members:
            check_rendered(d, True, f"{rel}:{d.python_name}", discs, d.kind == "class")
        # package line / Python-module annotation
        pm = so.package
        if sn.python_module != pm:
            discs.append(Discrepancy.make("python_module_not_recoverable", rel, f"without -nc package {pm!r}; with -nc the recoverable module is {sn.python_module!r}", []))
        want_pkg = names.ref_convert_path(pm)
        seg_tags = ["pkgseg:leading_underscore"] if any(s.startswith("_") for s in pm.split(".")) else []
        if sn.package != want_pkg:
            discs.append(Discrepancy.make("package_path_conversion_differs", rel, f"package {sn.package!r}, segment-wise reference {want_pkg!r}", seg_tags))
        has = any(a[0] == "PythonModule" for a in sn.annotations)
        if has != (sn.package != pm):
            discs.append(Discrepancy.make("python_module_annotation_wrong", rel, f"package {sn.package!r} vs python {pm!r}: annotation present={has}", seg_tags))
        # imports: same targets after mapping
        io = sorted((names.ref_convert_path(p), n) for p, n, _a in so.imports)
        i_n = sorted((p, n) for p, n, _a in sn.imports)
        if len(io) != len(i_n):
            discs.append(Discrepancy.make("imports_differ", rel, f"{len(io)} imports without -nc, {len(i_n)} with", []))
        # relational: everything else equal
        to = tuple(norm_decl(d, True) for d in so.members)
        tn = tuple(norm_decl(d, False) for d in sn.members)
        if to != tn:
            discs.append(Discrepancy.make("stubs_differ_beyond_renaming", rel, first_diff(to, tn)[:400], []))
        if so.doc != sn.doc:
            discs.append(Discrepancy.make("stubs_differ_beyond_renaming", rel, "module documentation differs", []))
        conv = [i for i in sn.identifiers if "_" not in i[0]]
        if any(d.prefix.python_name for _o, d in sn.walk()):
            n_conv += 1
            res["nontrivial"].append(f"{rel}|{len(conv)}|{sorted({d.python_name for _o, d in sn.walk() if d.prefix.python_name})[:5]}")
    res["stats"] += [f"files_with_converted_names={min(n_conv, 3)}", f"style:{opts.get('docstyle')}"]
    if res["sample"] is None and n_conv:
        rel = next(iter(on.files))
        res["sample"] = {"file": rel, "with_nc": on.texts[rel][:500]}
    return res


def run(ctx: Ctx) -> None:
    ctx.rule = (
        "(a) every Python identifier over {a,b,A,B,0,1,_} up to length 6 (quick) / 7 (thorough), x is_class_name, plus "
        "Hypothesis identifiers over [A-Za-z0-9_] up to length 40, against the reference conversion (identity for PYTHON; "
        "strip outer underscores, delete inner runs and upper-case the next character, first character upper-cased for "
        "classes; idempotent; letters unchanged; result an identifier); (b) C02-profile packages run with -nc off and on: "
        "rendered names, Python-name / Python-module annotations iff changed, equality of both stub sets after mapping back. "
        "evaluations = identifiers + compared stub files; non-trivial = identifier with inner or outer underscores / file "
        "with at least one converted declaration."
    )
    ctx.assumptions = [
        "lowerCamelCase keeps the first word as written (upstream examples: '__get_funCtion_NamE__' -> 'getFunCtionNamE')",
        "result names, type parameters and callable parameter names carry no Python-name annotation: they are compared through the reference conversion",
        "class names inside types are not converted at all by the tool (recorded under C11), so they are equal on both sides",
    ]
    maxlen = 6 if ctx.tier == "quick" else 7
    payloads = []
    for length in range(1, maxlen + 1):
        total = 7**length
        step = max(1, total // 32)
        for lo in range(0, total, step):
            payloads.append((length, lo, min(total, lo + step)))
    with mp.get_context("fork").Pool(ctx.workers) as pool:
        parts = pool.map(_enum_chunk, payloads)
    n_enum = sum(p["n"] for p in parts)
    ctx.evaluations += n_enum
    ctx.nontrivial_extra += sum(p["nontrivial"] for p in parts)
    ctx.extra["exhaustive_identifiers"] = n_enum
    ctx.extra["exhaustive_max_length"] = maxlen
    pure_new: dict[tuple, dict] = {}
    for p in parts:
        new, _k = ctx.known.split(p["discs"])
        for d in new:
            key = (d["kind"], tuple(d["tags"]))
            if key not in pure_new or len(d["element"]) < len(pure_new[key]["element"]):
                pure_new[key] = d

    ident = st.text(alphabet="abcxyzABCXYZ0189_", min_size=1, max_size=40).filter(str.isidentifier)
    count = {"n": 0}

    @hypothesis.seed(derive_seed("C09", ctx.seed))
    @settings(max_examples=ctx.n(3000, 100000), database=None, deadline=None, phases=[Phase.generate], suppress_health_check=list(HealthCheck))
    @given(ident)
    def rand(name: str) -> None:
        count["n"] += 1
        new, _k = ctx.known.split(check_name(name))
        for d in new:
            key = (d["kind"], tuple(d["tags"]))
            if key not in pure_new or len(d["element"]) < len(pure_new[key]["element"]):
                pure_new[key] = d

    rand()
    ctx.evaluations += count["n"]
    for d in pure_new.values():
        ctx.violation(d, {"case": {"name": eval(d["element"].split(" is_class")[0])}})  # noqa: S307 - repr of a str
    ctx.add_sample({"identifier": "__get__function___name__", "reference": names.ref_convert("__get__function___name__"), "class": names.ref_convert("some_class_name", True)})
    engine.run_atheris(ctx, "c09", runs=ctx.n(20000, 2000000), shards=ctx.n(2, 12), max_len=64)
    failures = engine.search(ctx, MOD, shards=ctx.n(16, 96), examples=ctx.n(8, 30))
    engine.report_failures(ctx, MOD, failures)
    engine.replay_known(ctx, MOD)


def replay(ctx: Ctx, path: str) -> int:
    return engine.replay_cli(ctx, MOD, path)


_ = itertools
