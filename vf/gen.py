"""Hypothesis strategies (constructive, no filtering of whole cases) for the ground-truth model of vf/gt.py."""

from __future__ import annotations

import keyword
from typing import Any

from hypothesis import strategies as st

from vf import gt
from vf.sdsparse import KEYWORDS

# ---- identifier pools --------------------------------------------------------------------------------
PY_KEYWORDS = set(keyword.kwlist) | {"print", "self", "cls", "type", "list", "dict", "set", "tuple", "int", "str", "bool", "float", "object", "None", "True", "False", "match", "case", "_"}
SDS_KEYWORDS_AS_PY = sorted(k for k in KEYWORDS if k not in keyword.kwlist and k != "_")  # legal Python identifiers

SNAKE_STEMS = ["alpha", "beta_value", "gamma_x_y", "delta1", "eps_2_z", "zeta__w", "eta_", "theta9_k", "iota_A_b", "kappaCase", "lambda_v", "mu_", "nu2", "xi_long_name_here", "omicron", "pi_r"]
CAMEL_STEMS = ["Alpha", "BetaValue", "Gamma_X", "Delta1", "EpsZ", "Zeta_w", "ETA", "Theta9K", "iotaLower", "Kappa_case_2"]


class Namer:
    """Unique names per generated package: stem + running number, so declarations can be looked up by name alone."""

    def __init__(self, prefix: str = "") -> None:
        self.n = 0
        self.prefix = prefix

    def fresh(self, stem: str) -> str:
        self.n += 1
        return f"{self.prefix}{stem}{self.n}"


def pkg_name(i: int = 0) -> str:
    return f"qzv{i}pkg"


# ---- type terms --------------------------------------------------------------------------------------
class Env:
    def __init__(self, classes: list[str] | None = None, enums: list[str] | None = None, generics: list[tuple[str, int]] | None = None, tvars: list[str] | None = None) -> None:
        self.classes = classes or []
        self.enums = enums or []
        self.generics = generics or []
        self.tvars = tvars or []


LITERAL_VALUES = ["a", "b c", "", 0, 1, -3, True, False, None, "x_y"]


def leaf_types(env: Env, full: bool = True) -> st.SearchStrategy:
    base: list[Any] = [["int"], ["str"], ["bool"], ["float"], ["none"]]
    if full:
        base.append(["any"])
    base += [["cls", c] for c in env.classes]
    base += [["enum", e] for e in env.enums]
    base += [["tvar", t] for t in env.tvars]
    s = st.sampled_from(base)
    if full:
        lit = st.lists(st.sampled_from(LITERAL_VALUES), min_size=1, max_size=3, unique_by=repr).map(lambda vs: ["literal", vs])
        return st.one_of(s, s, s, lit)
    return s


def type_terms(env: Env, max_depth: int = 3, full: bool = True) -> st.SearchStrategy:
    leaf = leaf_types(env, full)
    if max_depth <= 0:
        return leaf
    sub = st.deferred(lambda: type_terms(env, max_depth - 1, full))
    nonnone = sub  # None inside Optional is legal and handled by the reference translation
    ctors = [
        st.builds(lambda a: ["list", a], sub),
        st.builds(lambda a: ["set", a], sub),
        st.builds(lambda a: ["seq", a], sub),
        st.builds(lambda a: ["coll", a], sub),
        st.builds(lambda a, b: ["dict", a, b], sub, sub),
        st.builds(lambda a, b: ["mapping", a, b], sub, sub),
        st.builds(lambda xs: ["tuple", xs], st.lists(sub, min_size=1, max_size=3)),
        st.builds(lambda a: ["opt", a], nonnone),
        st.builds(lambda a: ["pipenone", a], nonnone),
        st.builds(lambda a: ["nonepipe", a], nonnone),
        st.builds(lambda xs: ["union", xs], st.lists(sub, min_size=1, max_size=3)),
        st.builds(lambda xs: ["pipe", xs], st.lists(sub, min_size=2, max_size=3)),
        st.builds(lambda ps, r: ["callable", ps, r], st.lists(sub, max_size=2), sub),
    ]
    if env.generics:
        def gen_generic(draw_g: Any) -> Any:
            return draw_g

        ctors.append(
            st.sampled_from(env.generics).flatmap(
                lambda g: st.lists(sub, min_size=g[1], max_size=g[1]).map(lambda xs, g=g: ["generic", g[0], xs]),
            ),
        )
    return st.one_of(leaf, st.one_of(*ctors), st.one_of(*ctors))


# ---- defaults -----------------------------------------------------------------------------------------
def literal_defaults(strings: st.SearchStrategy | None = None) -> st.SearchStrategy:
    ints = st.one_of(
        st.integers(-5, 300).map(lambda v: ["int", str(v)] if v >= 0 else ["int", str(v)]),
        st.sampled_from([["int", "0x1F"], ["int", "1_000"], ["int", "12345678901234567890123"], ["int", "+7"], ["int", "-0"], ["int", "0b101"], ["int", "0o17"],
                         ["int", "-9007199254740993"], ["int", "+9007199254740993"], ["int", "-12345678901234567890123"], ["int", "-0x20000000000001"], ["int", "9007199254740993"]]),
    )
    floats = st.sampled_from([["float", s] for s in ["1.5", "-2.25", "0.0", "-0.0", "1e3", "2.5e-3", "1e16", "1.0e-7", "3.", ".5", "+1.5", "1_0.5", "-1e-7", "-123456789.125", "-0.1", "+.5e1"]])
    strs = (strings or st.sampled_from(["", "a", "hello world", "x_y", "Some String", "0", "None", "true"])).map(lambda s: ["str", s])
    return st.one_of(ints, floats, strs, st.sampled_from([["bool", True], ["bool", False], ["none"]]))


def default_value(d: list) -> tuple:
    """Python value of a literal default as (type tag, value) — evaluated by Python itself, not by the tool."""
    k = d[0]
    if k == "int":
        return ("int", int(eval(d[1], {})))  # noqa: S307 - own generated literal
    if k == "float":
        return ("float", float(eval(d[1], {})))  # noqa: S307
    if k == "str":
        return ("str", d[1])
    if k == "bool":
        return ("bool", d[1])
    if k == "none":
        return ("null",)
    raise ValueError(d)


# ---- signatures ---------------------------------------------------------------------------------------
KIND_ORDER = ["posonly", "pos", "vararg", "kwonly", "kwarg"]


@st.composite
def signatures(draw: Any, namer: Namer, ann: st.SearchStrategy | None, defaults: st.SearchStrategy, max_params: int = 6, ann_prob: float = 0.8) -> list[dict]:
    """A legal Python parameter list: counts per kind, defaults only in legal places."""
    n_posonly = draw(st.integers(0, 2))
    n_pos = draw(st.integers(0, 3))
    has_var = draw(st.booleans())
    n_kwonly = draw(st.integers(0, 2))
    has_kw = draw(st.booleans())
    total = n_posonly + n_pos + n_kwonly
    if total > max_params:
        n_pos = max(0, n_pos - (total - max_params))
    params: list[dict] = []
    # positional defaults must be a suffix of posonly+pos
    npos_total = n_posonly + n_pos
    first_default = draw(st.integers(0, npos_total)) if npos_total else 0
    for i in range(npos_total):
        kind = "posonly" if i < n_posonly else "pos"
        a = draw(ann) if ann is not None and draw(st.floats(0, 1)) < ann_prob else None
        d = draw(defaults) if i >= first_default else None
        params.append(gt.param(namer.fresh("p"), kind, a, d))
    if has_var:
        a = draw(ann) if ann is not None and draw(st.booleans()) else None
        params.append(gt.param(namer.fresh("args"), "vararg", a, None))
    for _ in range(n_kwonly):
        a = draw(ann) if ann is not None and draw(st.floats(0, 1)) < ann_prob else None
        d = draw(defaults) if draw(st.booleans()) else None
        params.append(gt.param(namer.fresh("k"), "kwonly", a, d))
    if has_kw:
        a = draw(ann) if ann is not None and draw(st.booleans()) else None
        params.append(gt.param(namer.fresh("kwargs"), "kwarg", a, None))
    return params
