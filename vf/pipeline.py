"""Runs the real Stub-Generator pipeline on a set of generated files and returns everything observable.

In-process runs call `safeds_stubgen.main.main()` with a patched `sys.argv` (the documented entry point);
subprocess runs call the console script. The only monkey patch (in-process only) memoises
`importlib.metadata.packages_distributions()` as seen by the tool (same value, computed once per worker).
"""

from __future__ import annotations

import contextlib
import io
import json
import logging
import os
import shutil
import subprocess
import sys
import tempfile
import traceback
from pathlib import Path
from typing import Any

TMP_ROOT = os.environ.get("VERIF_TMP") or tempfile.gettempdir()
CONSOLE_SCRIPT = "/venv/bin/safe-ds-stubgen"

_patched = False


def _patch_metadata() -> None:
    global _patched
    if _patched:
        return
    import functools
    import importlib.metadata as md

    import safeds_stubgen.api_analyzer._package_metadata as pm

    cached = functools.lru_cache(maxsize=1)(md.packages_distributions)
    pm.packages_distributions = cached  # type: ignore[attr-defined]
    _patched = True


class _ListHandler(logging.Handler):
    def __init__(self) -> None:
        super().__init__(level=logging.DEBUG)
        self.records: list[tuple[str, str]] = []

    def emit(self, record: logging.LogRecord) -> None:
        try:
            self.records.append((record.levelname, record.getMessage()))
        except Exception:  # noqa: BLE001
            self.records.append((record.levelname, str(record.msg)))


def option_args(options: dict) -> list[str]:
    args: list[str] = []
    if options.get("docstyle"):
        args += ["--docstyle", options["docstyle"]]
    if options.get("testrun"):
        args += ["-tr"]
    if options.get("nc"):
        args += ["-nc"]
    if options.get("tsp"):
        args += ["-tsp", options["tsp"]]
    if options.get("tsw"):
        args += ["-tsw", options["tsw"]]
    return args


def write_files(root: Path, files: dict[str, str]) -> None:
    for rel, content in files.items():
        p = root / rel
        p.parent.mkdir(parents=True, exist_ok=True)
        p.write_text(content, encoding="utf-8")


def collect_out(out: Path) -> tuple[dict[str, str], dict[str, str]]:
    stubs: dict[str, str] = {}
    others: dict[str, str] = {}
    if out.exists():
        for p in sorted(out.rglob("*")):
            if p.is_file():
                rel = str(p.relative_to(out))
                try:
                    txt = p.read_text(encoding="utf-8")
                except UnicodeDecodeError:
                    txt = p.read_bytes().decode("utf-8", "replace")
                (stubs if rel.endswith(".sdsstub") else others)[rel] = txt
    return stubs, others


def exc_info(e: BaseException) -> dict:
    tb = traceback.extract_tb(e.__traceback__)
    frames = [(f.filename, f.name, f.lineno) for f in tb]
    tool = [f for f in frames if "/safeds_stubgen/" in f[0]]
    inner = tool[-1] if tool else None
    return {
        "type": type(e).__name__,
        "msg": str(e)[:500],
        "innermost": frames[-1] if frames else None,
        "tool_frame": (inner[0].split("/safeds_stubgen/")[-1], inner[1], inner[2]) if inner else None,
        "bucket": f"{type(e).__name__}@{inner[0].split('/safeds_stubgen/')[-1]}:{inner[1]}" if inner else f"{type(e).__name__}@<outside tool>",
        "trace": [f"{f[0].split('/site-packages/')[-1].split('/src/')[-1]}:{f[2]}:{f[1]}" for f in frames[-8:]],
    }


def run_case(
    files: dict[str, str],
    options: dict | None = None,
    src: str | None = None,
    keep: bool = False,
    extra_pre: Any = None,
    out_spelling: str = "abs",
    out_sub: str = "o",
    src_root_name: str = "s",
) -> dict:
    """Run the tool in-process on `files` (paths relative to a fresh scratch root).

    `src` is the path (relative to the scratch root) passed as -s; default: the single top-level directory.
    Returns dict(status='ok'|'exc', exc=..., stubs={rel: text}, api=<parsed json>|None, api_text, api_name,
    others={rel: text}, logs=[(level, msg)], stdout).
    """
    options = options or {}
    _patch_metadata()
    base = Path(tempfile.mkdtemp(prefix="vfcase_", dir=TMP_ROOT))
    srcroot = base / src_root_name
    out = base / out_sub
    cwd = base / "cwd"
    cwd.mkdir()
    write_files(srcroot, files)
    if src is None:
        tops = sorted({rel.split("/")[0] for rel in files})
        src = tops[0] if len(tops) == 1 else ""
    src_path = srcroot / src if src else srcroot
    out_arg = str(out) if out_spelling == "abs" else os.path.relpath(out, cwd) + ("/" if out_spelling == "rel_slash" else "")
    argv = ["safe-ds-stubgen", "-s", str(src_path), "-o", out_arg, *option_args(options)]

    handler = _ListHandler()
    root_logger = logging.getLogger()
    old_level = root_logger.level
    root_logger.addHandler(handler)
    root_logger.setLevel(logging.WARNING)
    old_argv, old_cwd = sys.argv, os.getcwd()
    stdout = io.StringIO()
    res: dict[str, Any] = {"status": "ok", "exc": None}
    try:
        os.chdir(cwd)
        sys.argv = argv
        if extra_pre is not None:
            extra_pre()
        from safeds_stubgen.main import main

        with contextlib.redirect_stdout(stdout), contextlib.redirect_stderr(io.StringIO()):
            main()
    except SystemExit as e:
        res["status"] = "exc"
        res["exc"] = {"type": "SystemExit", "msg": str(e.code), "bucket": "SystemExit", "tool_frame": None, "trace": []}
    except BaseException as e:  # noqa: BLE001
        if isinstance(e, KeyboardInterrupt):
            raise
        res["status"] = "exc"
        res["exc"] = exc_info(e)
    finally:
        sys.argv = old_argv
        os.chdir(old_cwd)
        root_logger.removeHandler(handler)
        root_logger.setLevel(old_level)
    res["logs"] = handler.records
    res["stdout"] = stdout.getvalue()[-300:]
    stubs, others = collect_out(out)
    res["stubs"] = stubs
    res["others"] = others
    res["api"] = None
    res["api_name"] = None
    res["api_text"] = None
    for rel, txt in others.items():
        if rel.endswith("__api.json"):
            res["api_name"] = rel
            res["api_text"] = txt
            try:
                res["api"] = json.loads(txt)
            except ValueError as e:
                res["api_error"] = str(e)
    res["src"] = str(src_path)
    res["out"] = str(out)
    res["stray_stubs"] = sorted(str(p.relative_to(base)) for p in base.rglob("*.sdsstub") if out not in p.parents) + sorted(
        str(p.relative_to(base)) for p in base.rglob("*__api.json") if out not in p.parents
    )
    if keep:
        res["base"] = str(base)
    else:
        shutil.rmtree(base, ignore_errors=True)
    return res


def run_cli(
    files: dict[str, str],
    options: dict | None = None,
    src: str | None = None,
    hashseed: str | None = "0",
    cwd_kind: str = "scratch",
    spelling: str = "abs",
    out_pre: dict[str, str] | None = None,
    runs: int = 1,
    timeout: int = 300,
    base_dir: str | None = None,
) -> dict:
    """Run the console script in a subprocess (fresh interpreter). `runs` > 1 repeats into the same OUT."""
    options = options or {}
    base = Path(tempfile.mkdtemp(prefix="vfcli_", dir=base_dir or TMP_ROOT))
    srcroot = base / "w" / "s"
    out = base / "w" / "o"
    scratch = base / "cwd"
    scratch.mkdir(parents=True)
    write_files(srcroot, files)
    if out_pre:
        write_files(out, out_pre)
    if src is None:
        tops = sorted({rel.split("/")[0] for rel in files})
        src = tops[0] if len(tops) == 1 else ""
    src_path = srcroot / src if src else srcroot
    cwd = {
        "scratch": scratch,
        "out": out,
        "src": src_path,
        "src_parent": src_path.parent,
        "ancestor": base,
        "work": base / "w",
    }[cwd_kind]
    cwd.mkdir(parents=True, exist_ok=True)

    def spell(p: Path) -> str:
        if spelling == "abs":
            return str(p)
        if spelling == "abs_slash":
            return str(p) + "/"
        rel = os.path.relpath(p, cwd)
        if spelling == "rel":
            return rel
        if spelling == "rel_dot":
            return "./" + rel
        if spelling == "rel_slash":
            return rel + "/"
        if spelling == "dotdot":
            return str(p.parent / ".." / p.parent.name / p.name)
        raise ValueError(spelling)

    env = {k: v for k, v in os.environ.items() if k not in {"PYTHONPATH", "PYTHONHASHSEED", "VERIF_REEXEC"}}
    # keep only path entries that provide the package under test (sensitivity runs use a scratch copy of /repo/src)
    override = [p for p in os.environ.get("PYTHONPATH", "").split(os.pathsep) if p and os.path.isdir(os.path.join(p, "safeds_stubgen"))]
    if override:
        env["PYTHONPATH"] = os.pathsep.join(override)
    if hashseed is not None:
        env["PYTHONHASHSEED"] = hashseed
    env["PYTHONDONTWRITEBYTECODE"] = "1"
    res: dict[str, Any] = {"status": "ok", "exc": None, "runs": []}
    try:
        for _ in range(runs):
            try:
                cp = subprocess.run(
                    [CONSOLE_SCRIPT, "-s", spell(src_path), "-o", spell(out), *option_args(options)],
                    cwd=cwd, env=env, capture_output=True, text=True, timeout=timeout, check=False,
                )  # fmt: skip
                res["runs"].append({"rc": cp.returncode, "stderr": cp.stderr[-1500:], "stdout": cp.stdout[-200:]})
                if cp.returncode != 0:
                    res["status"] = "exc"
                    last = [l for l in cp.stderr.strip().splitlines() if l.strip()]
                    res["exc"] = {"type": "subprocess", "msg": last[-1] if last else "", "rc": cp.returncode, "stderr": cp.stderr[-1500:]}
            except subprocess.TimeoutExpired:
                res["status"] = "timeout"
                res["runs"].append({"rc": None, "stderr": "timeout"})
        stubs, others = collect_out(out)
        # files written into the cwd (.mypy_cache) are not output
        res["stubs"] = stubs
        res["others"] = others
        res["api_text"] = next((t for r, t in others.items() if r.endswith("__api.json")), None)
        res["api_name"] = next((r for r in others if r.endswith("__api.json")), None)
    finally:
        shutil.rmtree(base, ignore_errors=True)
    return res
